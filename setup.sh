#!/bin/sh
# offline setup: nothing to fetch or build ahead of time; only verify that the verifiers are present
set -e
command -v verus >/dev/null || { echo "verus missing"; exit 1; }
command -v cargo >/dev/null || { echo "cargo missing"; exit 1; }
cargo kani --version >/dev/null 2>&1 || { echo "cargo kani missing"; exit 1; }
python3 -c 'import json, re, hashlib' 
mkdir -p "$(dirname "$0")/out" "$(dirname "$0")/evidence"
echo "setup ok"
