"""Unit definitions for the Verus side: which real files / items go into which single-file unit.

Everything not listed under `drop` of a listed file is extracted.  `why` gives the reason recorded in the
extraction manifest (and thereby in the evidence files) for each dropped item.
"""

REPRS = {'U4': 'u8', 'U7': 'u8', 'U14': 'u16', 'Channel': 'u8', 'KeyNumber': 'u8', 'ControllerNumber': 'u8'}

KANI_NEWTYPE = 'generic over PartialOrd / formatting: proved in the Kani unit k_newtype'

NEWTYPE_POLICY = {
    'macros': {
        'newtype': {
            'drop': [r'impl \w+::fn is_valid', r'impl \w+::fn new', r'impl \w+::fn new_unchecked',
                     r'impl core::str::FromStr for \w+', r'impl core::str::FromStr for \w+::.*'],
            'why': {'*': KANI_NEWTYPE},
        },
        'impl_from_newtype_to_newtype': {},
        'impl_from_newtype_to_primitive': {},
        'impl_from_primitive_to_newtype': {},
    },
}


def newtype_file(f, extra_drop=()):
    p = dict(NEWTYPE_POLICY)
    p['file'] = f
    p['drop'] = list(extra_drop) + [r'impl (core::convert::)?TryFrom<.*', r'impl (core::str::)?FromStr for .*']
    p['why'] = {'*': KANI_NEWTYPE}
    return p


COMMON_FILES = [
    newtype_file('u4_mod.rs'),
    newtype_file('u7_mod.rs'),
    newtype_file('u14_mod.rs'),
    newtype_file('channel_mod.rs'),
    newtype_file('key_number_mod.rs'),
    newtype_file('controller_number_mod.rs',
                 extra_drop=['impl ControllerNumber::fn is_channel_mode_message_controller_number']),
    {'file': 'bit_util.rs'},
    {'file': 'short_message.rs', 'mode': 'only', 'keep': ['enum TimeCodeQuarterFrame', 'enum TimeCodeType'],
     'why': {'*': 'trait layer / derive output: Verus rejects the ShortMessage<->ShortMessageFactory cycle; proved in the Kani unit k_short and represented here by the bridge traits B1/B2'}},
    {'file': 'structured_short_message.rs', 'mode': 'only', 'keep': ['enum StructuredShortMessage'],
     'why': {'*': 'implementations of the short-message traits: proved in the Kani unit k_short'}},
]

CC14_MSG = {'file': 'control_change_14_bit_message.rs',
            'drop': ['impl <T:ShortMessageFactory>From<ControlChange14BitMessage>for[T;2]'],
            'why': {'*': 'a trait impl cannot carry the `requires` its callee needs: proved by Kani (k_frame) as from(m) == m.to_short_messages()'}}
PN_MSG = {'file': 'parameter_number_message.rs',
          'drop': ['impl <T:ShortMessageFactory>From<ParameterNumberMessage>for[Option<T>;4]'],
          'why': {'*': 'a trait impl cannot carry the `requires` its callee needs: proved by Kani (k_frame) as from(m) == m.to_short_messages(MsbFirst)'}}

def gen_lsb_lemma(repo):
    """C16: one ensures clause per `X_LSB` constant of the *current* source that has a base constant `X`"""
    import os
    import re
    src = open(os.path.join(repo, 'src', 'controller_number_mod.rs')).read()
    names = re.findall(r'pub const (\w+): ControllerNumber', src)
    pairs = [(n[:-4], n) for n in names if n.endswith('_LSB') and n[:-4] in names]
    if not pairs:
        return None
    body = ',\n'.join('        controller_numbers::%s.0 == controller_numbers::%s.0 + 32' % (l, b) for b, l in pairs)
    return (['C16'], 'C16: every *_LSB constant is its MSB constant + 32 (%d pairs found in the source)' % len(pairs),
            'pub proof fn c16_lsb_constants()\n    ensures\n%s,\n{}\n' % body)


UNITS = {
    'v_cc14': {
        'name': 'v_cc14',
        'features': ['std'],
        'reprs': REPRS,
        'files': COMMON_FILES + [CC14_MSG, {'file': 'control_change_14_bit_message_scanner.rs'}],
        'contracts': ['common.vc', 'cc14_msg.vc', 'v_cc14.vc'],
    },
    'v_msg': {
        'name': 'v_msg',
        'features': ['std'],
        'reprs': REPRS,
        'files': COMMON_FILES + [CC14_MSG, PN_MSG],
        'contracts': ['common.vc', 'cc14_msg.vc', 'pn_msg.vc', 'v_msg.vc'],
        'gen_preludes': [gen_lsb_lemma],
    },
    'v_nrpn': {
        'name': 'v_nrpn',
        'features': ['std'],
        'reprs': REPRS,
        'files': COMMON_FILES + [PN_MSG, {'file': 'parameter_number_message_scanner.rs'}],
        'contracts': ['common.vc', 'pn_msg.vc', 'v_nrpn.vc'],
    },
    'v_poll': {
        'name': 'v_poll',
        'features': ['std'],
        'reprs': REPRS,
        'header': ['use vstd::std_specs::cmp::PartialOrdSpec;'],
        'max_elapsed_calls': 99,
        'files': COMMON_FILES + [PN_MSG, {'file': 'polling_parameter_number_message_scanner.rs', 'expand_default': ['struct WaitingForNumberCompletionState'],
                                  'no_structural': ['struct PollingParameterNumberMessageScanner', 'struct ScannerForOneChannel', 'enum State', 'struct ValuePendingState']}],
        'contracts': ['common.vc', 'pn_msg.vc', 'v_poll.vc'],
    },
}
