"""Which verifier runs decide which property (DESIGN.md section 5)."""

LANG = 'Rust value semantics: a safe method without globals / interior mutability is a function of its arguments (used for "equal states evolve equally" and for the per-channel functionality in C15)'
B1 = 'bridge B1/B2 (trait ShortMessage / ShortMessageFactory contract) is assumed in the Verus units and proved in the same check for RawShortMessage, StructuredShortMessage and two foreign implementors by the Kani harnesses bridge_b1_* / bridge_b2_*'
B3 = 'bridge B3: scanner new()/default() are external_body in Verus (derived Default has no Verus spec); their postcondition is proved in the same check by the Kani harnesses *_b3_new'
VERUS_TB = ['Verus 0.2026.09.13 + Z3 (SMT encoding, vstd specifications of Option/Result/array/slice::IterMut/From)',
            'the extractor /verif/tools/extract.py (guarded by the per-item token round-trip check on every run)',
            'derived PartialEq/Eq/Clone/Copy are structural (Structural marker added)']


def v(unit, sl):
    return {'kind': 'verus', 'unit': unit, 'slice': sl}


PROPS = {}


def prop(pid, steps, assumptions=(), trusted=()):
    PROPS[pid] = {'id': pid, 'steps': steps, 'assumptions': list(assumptions), 'trusted': list(trusted)}


CLOCK = 'clock model (DESIGN 2.7): the clock is frozen during one public call: every Instant::now() of the call returns current_instant() and every .elapsed() on a stored instant returns clock_reading(instant) (both uninterpreted, arbitrary per call); Duration obeys vstd partial_cmp_spec; no monotonicity and no relation between the two is assumed'
FEEDCLOCK = 'feed() never reads the clock (it only stamps Instant::now() into arrival_time, which the abstraction forgets): proved as part of the refinement clauses in the C12/C14 slices, guarded syntactically here'

def k(unit, pid, features=None, **kw):
    d = {'kind': 'kani', 'unit': unit, 'set': pid, 'features': features}
    d.update(kw)
    return d


KANI_TB = ['Kani 0.68 / CBMC 6.11 / CaDiCaL; Kani MIR semantics and its models of core',
           'tools/krun.py weaver: appends `#[cfg(kani)] mod verif_kani;` to lib.rs of a scratch copy of the working tree (additive)']
FOREIGN = 'third-party implementors other than the two harness-defined ones (getters only; getters + overridden to_bytes): covered by parametricity of the default methods, assuming their getters are pure total functions'
prop('C01', [k('k_short', 'C01'), k('k_contracts', 'C01')], [FOREIGN], KANI_TB)
prop('C02', [k('k_short', 'C02'), k('k_contracts', 'C02')], [FOREIGN], KANI_TB)
prop('C03', [k('k_short', 'C03')], [FOREIGN], KANI_TB)
prop('C06', [k('k_short', 'C06')], [FOREIGN], KANI_TB)
prop('C19', [k('k_serde', 'C19', 'serde')], ['ill-shaped inputs beyond arbitrary integer/bool/unit tokens (strings, floats, nested containers) and format-specific behaviour of concrete serde formats are not driven', 'derive(Serialize) emits fields in declaration order'], KANI_TB)
prop('C04', [k('k_newtype', 'C04'), k('k_newtype', 'C04', 'none'), k('k_contracts', 'C04'), k('k_short', 'C04'), v('v_msg', 'C04'), v('v_cc14', 'C04'), v('v_nrpn', 'C04'), v('v_poll', 'C04')],
     ['restricted-integer inputs of every harness / contract are assumed in range (type invariant as precondition)', B1], VERUS_TB + KANI_TB)
prop('C05', [k('k_newtype', 'C05'), k('k_contracts', 'C05')], ['Hash agreement with the numeric value is not examined (derived)'], KANI_TB)
prop('C07', [v('v_cc14', 'C07'), k('k_bridge', 'C07'), k('k_serde', 'C07', 'serde')], [B1, B3], VERUS_TB)
prop('C08', [v('v_cc14', 'C08'), k('k_bridge', 'C08')], [B1, B3], VERUS_TB)
prop('C09', [v('v_msg', 'C09'), k('k_bridge', 'C09'), k('k_serde', 'C09', 'serde')], [B1], VERUS_TB)
prop('C10', [v('v_nrpn', 'C10'), k('k_bridge', 'C10')], [B1, B3], VERUS_TB)
prop('C11', [v('v_nrpn', 'C11'), k('k_bridge', 'C11')], [B1, B3], VERUS_TB)
prop('C12', [v('v_poll', 'C12'), k('k_bridge', 'C12')], [B1, B3, CLOCK], VERUS_TB)
prop('C13', [v('v_poll', 'C13'), k('k_bridge', 'C13')], [B1, B3, CLOCK, FEEDCLOCK], VERUS_TB)
prop('C14', [v('v_poll', 'C14'), k('k_bridge', 'C14')], [B1, B3, CLOCK], VERUS_TB)
prop('C15', [v('v_cc14', 'C15'), v('v_nrpn', 'C15'), v('v_poll', 'C15'), k('k_bridge', 'C15')], [B1, B3, CLOCK, LANG], VERUS_TB)
prop('C16', [v('v_cc14', 'C16'), v('v_nrpn', 'C16'), v('v_poll', 'C16'), v('v_msg', 'C16'), k('k_bridge', 'C16'), k('k_contracts', 'C16')], [B1, B3, CLOCK], VERUS_TB)
prop('C17', [v('v_cc14', 'C17'), v('v_nrpn', 'C17'), v('v_poll', 'C17'), k('k_bridge', 'C17')], [B1, B3, CLOCK, LANG], VERUS_TB)
prop('C18', [v('v_msg', 'C18'), v('v_cc14', 'C18'), v('v_nrpn', 'C18'), v('v_poll', 'C18'), k('k_bridge', 'C18'), k('k_newtype', 'C18q'), k('k_short', 'C18', thorough_only=True), k('k_newtype', 'C18', thorough_only=True), k('k_newtype', 'C18', 'none', thorough_only=True)], [B1, B3, CLOCK], VERUS_TB)

# ----------------------------------------------------------------------------- manifest texts
VNOTE = 'Every public step contract is additionally decided on the real crate by a paired Kani harness (counterexamples, shape-change robustness); a Verus failure that none of the covering Kani harnesses confirms is reported as undecided (exit 2). Trusted: Verus/Z3/vstd; Kani/CBMC; the extractor (token round-trip check each run); bridge contracts B1-B3 (assumed in Verus, proved by Kani); clock model for the polling scanner; derived PartialEq structural. Listed in full in the evidence file (trusted_base, assumptions).'
DESC = {
 'C07': {'engine': 'verus', 'ref': '5/C07', 'technique': 'Verus contracts on real encoder + scanner functions, inverse proved by a verified client over the contracts; paired Kani harnesses on the real crate',
         'text': 'Unbounded proof: constructor/accessor/encoder contracts of ControlChange14BitMessage and the one-step contracts of the real scanner functions are discharged by Verus; a verified client composes encoder and scanner contracts for every message and every invariant-satisfying prior scanner state.', 'note': VNOTE},
 'C08': {'engine': 'verus', 'ref': '5/C08', 'technique': 'Verus one-step refinement contracts on every scanner function + inductive history theorem; paired Kani one-step harness',
         'text': 'Unbounded proof over all histories: each real function refines a spec step function; Verus proves by induction on a ghost history that the representation relation to "most recent MSB since creation/reset" is preserved and every report equals the statement\'s expected().', 'note': VNOTE},
 'C09': {'engine': 'verus', 'ref': '5/C09', 'technique': 'Verus contracts on constructors, accessors, to_short_messages and build_* helpers against encpn; paired Kani harnesses on the real trait layer',
         'text': 'Unbounded proof: every constructor, accessor and the encoder (both byte orders) is proved equal to the slot specification written from the statement; slot-count lemma; controller constants are the extracted ones.', 'note': VNOTE},
 'C10': {'engine': 'verus', 'ref': '5/C10', 'technique': 'Verus verified clients composing encoder and scanner contracts, running forms by induction; paired Kani one-step harness',
         'text': 'Unbounded proof: for every message and every invariant-satisfying prior scanner state the encoder contract composed with the scanner step contracts yields None,...,Some(m); running forms by lemma + induction.', 'note': VNOTE},
 'C11': {'engine': 'verus', 'ref': '5/C11', 'technique': 'Verus one-step refinement contracts + inductive history theorem (num_msb/num_lsb/registered/v38); paired Kani one-step harness',
         'text': 'Unbounded proof over all histories of feeds and resets: exact functional contracts on all eight per-channel functions; induction over ghost histories shows every report equals the statement\'s expected().', 'note': VNOTE},
 'C12': {'engine': 'verus', 'ref': '5/C12', 'technique': 'Verus refinement of all 13 polling-scanner functions to an abstract machine + unit lemmas + inductive sentence composition; paired Kani harnesses against the executable machine',
         'text': 'Unbounded proof: every real function refines the abstract per-channel machine; unit lemma per documented form, composition theorem by induction over sentences, number selection from every state, encode-feed-late-poll corollary, noise erasure.', 'note': VNOTE},
 'C13': {'engine': 'verus', 'ref': '5/C13', 'technique': 'Verus contract of poll over the clock reading, arrival-time stamping and timeout preservation on every mutator; paired Kani poll/feed harnesses',
         'text': 'Unbounded proof over every clock reading: poll acts iff a value is pending and not(reading < timeout); not-expired poll is the identity; LSB-only pending dropped silently; timeout never changes.', 'note': VNOTE},
 'C14': {'engine': 'verus', 'ref': '5/C14', 'technique': 'Verus refinement contracts + history observer with inductive coupling invariant; paired Kani harnesses against the executable machine',
         'text': 'Unbounded proof: coupling invariant between machine state and history functions is inductive; justified/no_duplicate/no_loss lemmas give the safety clauses for all histories; channel stamp by contract.', 'note': VNOTE},
 'C15': {'engine': 'verus', 'ref': '5/C15', 'technique': 'Verus frame clauses on outer feed/poll of all three scanners + projection theorem by induction; Kani 2-safety noninterference harnesses',
         'text': 'Unbounded proof: frame clauses (only the element of the message\'s channel may change; report carries that channel; channel-less messages are the identity) on the real functions; projection theorem over Seq::filter proved for an arbitrary per-channel function.', 'note': VNOTE + ' Per-channel functionality: proved via the functional contracts when those hold, otherwise Rust value semantics.'},
 'C16': {'engine': 'verus', 'ref': '5/C16', 'technique': 'Verus identity-on-noise postconditions for all three scanners, predicate and constant contracts; Kani harnesses on derived PartialEq',
         'text': 'Unbounded proof: non-contributing message => state structurally unchanged and nothing reported, for every state; the three predicates proved equal to their ranges; every *_LSB constant of the current source equals MSB+32.', 'note': VNOTE},
 'C17': {'engine': 'verus', 'ref': '5/C17', 'technique': 'Verus reset postcondition (loop invariant over iter_mut) == new_spec, verified client reset-vs-new; Kani reset/new/default harnesses',
         'text': 'Unbounded proof: after reset every channel equals the fresh state (timeout kept); a verified client shows reset() and new() produce extensionally equal arrays.', 'note': VNOTE},
 'C18': {'engine': 'verus', 'ref': '5/C18', 'technique': 'Verus panic-freedom obligations under inductive invariants; Kani frame harnesses with allocator and fmt::format stubs; documented panics by unreachability',
         'text': 'Unbounded proof of panic freedom for every extracted function under the always-on invariants, which every mutator preserves; allocation frame by Kani (see evidence).', 'note': VNOTE},
}
KNOTE = 'Trusted: Kani/CBMC/CaDiCaL and Kani\'s models of core; loop-free code over full-width symbolic inputs is decided completely; bounded parts are listed under bounded_parts_not_counted_as_proved in the evidence and never counted. '
DESC['C04'] = {'engine': 'kani', 'ref': '5/C04', 'technique': 'Kani function contracts woven into the macro bodies (proof_for_contract per instantiation) + harnesses over full-width symbolic inputs in two feature sets; Verus range postconditions on every encoder/scanner result',
               'text': 'Complete (loop-free, full machine domain up to 128 bits) proof per conversion that results are in range and Ok/panic happens exactly for out-of-range input, for {std} and {no default features}; the range invariant of every value produced by bit helpers, encoders and scanners is a Verus postcondition.',
               'note': KNOTE + 'Absolute FromStr claim: relative to core\'s primitive parser for all strings, real parser only up to the stated length bound.'}
DESC['C05'] = {'engine': 'kani', 'ref': '5/C05', 'technique': 'Kani harnesses over full-width symbolic inputs: value preservation of all conversions, Ord/Eq/Default/MIN/MAX, Display through core::fmt against an own decimal routine',
               'text': 'Complete proof of value preservation for every instantiated conversion and of comparison operators for all pairs; Display proved for every value of every type through the real core::fmt; FromStr proved relative to the primitive parser for every string and on the real parser up to a stated bound (bounded part not counted).',
               'note': KNOTE}
DESC['C01'] = {'engine': 'kani', 'ref': '5/C01', 'technique': 'Kani harnesses over all 2^21 symbolic byte triples and all StructuredShortMessage values, per implementor, against canon/structured_of written from the MIDI table',
               'text': 'Complete (loop-free, full domain) proof for RawShortMessage, StructuredShortMessage and two foreign implementors: from_bytes Ok <=> status >= 0x80, bytes preserved (identity / canonicalisation), canon idempotent, structured->bytes->structured = id, quarter-frame and type-byte codecs.', 'note': KNOTE}
DESC['C02'] = {'engine': 'kani', 'ref': '5/C02', 'technique': 'Kani harnesses: every trait method == table function of (status, d1, d2) written from the MIDI 1.0 status table, per implementor; type conversion over all 256 bytes',
               'text': 'Complete proof over all valid byte triples for four implementors that each of the 20 accessors equals its table function; type-level vs message-level categories agree.', 'note': KNOTE}
DESC['C03'] = {'engine': 'kani', 'ref': '5/C03', 'technique': 'Kani relational harnesses: all trait methods pairwise equal between RawShortMessage and each other implementor; conversions commute',
               'text': 'Complete proof over all valid triples: 16 observers agree between raw and structured/foreign/overriding-foreign implementors, data bytes differ at most in information-free parts, to_other/from_other commute with accessors.', 'note': KNOTE + 'Arbitrary other third-party implementors: parametricity assumption.'}
DESC['C06'] = {'engine': 'kani', 'ref': '5/C06', 'technique': 'Kani harnesses per constructor and implementor against expected_bytes from the statement; documented panics proved exact by unreachability of the return point',
               'text': 'Complete proof for all argument tuples of the 19 named + 3 generic constructors on three implementors and of the test_util shorthands; wrong-category / out-of-range calls panic for every such input.', 'note': KNOTE}
DESC['C19'] = {'engine': 'kani', 'ref': '5/C19', 'technique': 'Kani harnesses driving the derive-generated Deserialize impls through a token deserializer with symbolic tokens (seq and map form); postcondition Ok(v) ==> constructor invariant',
               'text': 'Complete proof (loop-free / fully unwound) for every public type that any token stream of integer/bool/unit tokens either fails to deserialize or yields a value satisfying the invariant of the checked constructors; exhaustive over u16 for the restricted integers; in-order representation of every valid value deserializes to an equal value.',
               'note': KNOTE + 'serde/serde_derive/serde_repr generated code is under proof; concrete data formats (serde_json etc.) are not involved.'}
NOT_APPLICABLE = {}
