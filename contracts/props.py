"""Which verifier runs decide which property (DESIGN.md section 5)."""

LANG = 'Rust value semantics: a safe method without globals / interior mutability is a function of its arguments (used for "equal states evolve equally" and for the per-channel functionality in C15)'
B1 = 'bridge B1/B2 (trait ShortMessage / ShortMessageFactory contract) is assumed in the Verus units and proved for RawShortMessage, StructuredShortMessage and two foreign implementors by the Kani unit k_short'
B3 = 'bridge B3: scanner new()/default() are external_body in Verus (derived Default has no Verus spec); their postcondition is proved by the Kani unit k_frame'
VERUS_TB = ['Verus 0.2026.09.13 + Z3 (SMT encoding, vstd specifications of Option/Result/array/slice::IterMut/From)',
            'the extractor /verif/tools/extract.py (guarded by the per-item token round-trip check on every run)',
            'derived PartialEq/Eq/Clone/Copy are structural (Structural marker added)']


def v(unit, sl):
    return {'kind': 'verus', 'unit': unit, 'slice': sl}


PROPS = {}


def prop(pid, steps, assumptions=(), trusted=()):
    PROPS[pid] = {'id': pid, 'steps': steps, 'assumptions': list(assumptions), 'trusted': list(trusted)}


prop('C07', [v('v_cc14', 'C07')], [B1, B3], VERUS_TB)
prop('C08', [v('v_cc14', 'C08')], [B1, B3], VERUS_TB)
