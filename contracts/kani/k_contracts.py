"""Kani unit k_contracts: function contracts in Kani's own sense.

`#[cfg_attr(kani, kani::requires(..))]` / `#[cfg_attr(kani, kani::ensures(..))]` lines are woven immediately above the
real `fn` items of a scratch copy (also inside the `macro_rules!` bodies of newtype_macros.rs, so that every expansion
carries its contract); each contract is proved by a `#[kani::proof_for_contract]` harness over the full input domain,
and callers are verified against the *contracts* of their callees with `#[kani::stub_verified]`.
The weave is line-additive: nothing of the crate is rewritten.
"""
import os
import re
import sys

HERE = os.path.dirname(os.path.abspath(__file__))
sys.path.insert(0, HERE)
import k_newtype
import k_short

TRUSTED = ['Kani 0.68 function contracts (-Z function-contracts): proof_for_contract / stub_verified instrumentation', 'Kani / CBMC / CaDiCaL',
           'contract weaver (additive attribute lines; every contract must find its anchor, else exit 2)']

MODS = {'U4': 'u4_mod', 'U7': 'u7_mod', 'U14': 'u14_mod', 'Channel': 'channel_mod', 'KeyNumber': 'key_number_mod', 'ControllerNumber': 'controller_number_mod'}

# (file, anchor regex of the fn line, [attribute lines], within-macro name or None)
FREE = [
    ('bit_util.rs', r'pub fn extract_high_7_bit_value_from_14_bit_value\(', ['kani::requires(value.0 <= 16383)', 'kani::ensures(|r: &U7| r.0 as u16 == value.0 / 128 && r.0 <= 127)'], None),
    ('bit_util.rs', r'pub fn extract_low_7_bit_value_from_14_bit_value\(', ['kani::requires(value.0 <= 16383)', 'kani::ensures(|r: &U7| r.0 as u16 == value.0 % 128 && r.0 <= 127)'], None),
    ('bit_util.rs', r'pub fn build_14_bit_value_from_two_7_bit_values\(', ['kani::requires(high.0 <= 127 && low.0 <= 127)', 'kani::ensures(|r: &U14| r.0 == (high.0 as u16) * 128 + low.0 as u16 && r.0 <= 16383)'], None),
    ('bit_util.rs', r'pub fn build_status_byte\(', ['kani::requires(channel.0 <= 15)', 'kani::ensures(|r: &u8| *r == (type_byte | channel.0))'], None),
    ('bit_util.rs', r'pub fn extract_channel_from_status_byte\(', ['kani::ensures(|r: &Channel| r.0 == byte % 16 && r.0 <= 15)'], None),
    ('short_message.rs', r'fn extract_low_nibble_from_byte\(', ['kani::ensures(|r: &U4| r.0 == value % 16 && r.0 <= 15)'], None),
    ('short_message.rs', r'fn extract_high_nibble_from_byte\(', ['kani::ensures(|r: &u8| *r == byte / 16)'], None),
    ('short_message.rs', r'fn build_byte_from_nibbles\(', ['kani::requires(high_nibble <= 15 && low_nibble <= 15)', 'kani::ensures(|r: &u8| *r == high_nibble * 16 + low_nibble)'], None),
    ('short_message.rs', r'fn build_mtc_quarter_frame_data_byte\(', ['kani::requires(frame_type <= 7 && data.0 <= 15)', 'kani::ensures(|r: &U7| r.0 == frame_type * 16 + data.0 && r.0 <= 127)'], None),
    ('controller_number_mod.rs', r'pub fn can_be_part_of_14_bit_control_change_message\(', ['kani::requires(self.0 <= 127)', 'kani::ensures(|r: &bool| *r == (self.0 <= 63))'], None),
    ('controller_number_mod.rs', r'pub fn corresponding_14_bit_lsb_controller_number\(', ['kani::requires(self.0 <= 127)', 'kani::ensures(|r: &Option<ControllerNumber>| match r { Some(x) => self.0 <= 31 && x.0 == self.0 + 32, None => self.0 >= 32 })'], None),
    ('controller_number_mod.rs', r'pub fn is_parameter_number_message_controller_number\(', ['kani::requires(self.0 <= 127)', 'kani::ensures(|r: &bool| *r == (self.0 == 6 || self.0 == 38 || (self.0 >= 96 && self.0 <= 101)))'], None),
    ('controller_number_mod.rs', r'pub fn is_channel_mode_message_controller_number\(', ['kani::requires(self.0 <= 127)', 'kani::ensures(|r: &bool| *r == (self.0 >= 120))'], None),
]
MACRO = [
    ('impl_from_newtype_to_newtype', r'fn from\(value: \$from\)', ['kani::requires(value.0 <= <$from>::MAX.0)', 'kani::ensures(|r: &Self| (r.0 as u128) == (value.0 as u128) && r.0 <= <$into>::MAX.0)']),
    ('impl_from_newtype_to_primitive', r'fn from\(value: \$from\)', ['kani::requires(value.0 <= <$from>::MAX.0)', 'kani::ensures(|r: &Self| { #[allow(unused_comparisons)] let nonneg = *r >= (0 as $into); nonneg && (*r as u128) == (value.0 as u128) })']),
    ('impl_from_primitive_to_newtype', r'fn from\(value: \$from\)', ['kani::ensures(|r: &Self| { #[allow(unused_comparisons)] let nonneg = value >= (0 as $from); nonneg && (r.0 as u128) == (value as u128) && r.0 <= <$into>::MAX.0 })']),
    ('impl_try_from_newtype_to_newtype', r'fn try_from\(value: \$from\)', ['kani::requires(value.0 <= <$from>::MAX.0)', 'kani::ensures(|r: &Result<Self, Self::Error>| { let in_range = (value.0 as u128) <= (<$into>::MAX.0 as u128); match r { Ok(v) => in_range && (v.0 as u128) == (value.0 as u128), Err(_) => !in_range } })']),
    ('impl_try_from_primitive_to_newtype', r'fn try_from\(value: \$from\)', ['kani::ensures(|r: &Result<Self, Self::Error>| { #[allow(unused_comparisons)] let in_range = value >= (0 as $from) && (value as u128) <= (<$into>::MAX.0 as u128); match r { Ok(v) => in_range && (v.0 as u128) == (value as u128), Err(_) => !in_range } })']),
    ('newtype', r'pub fn new\(value: \$repr\)', ['kani::requires(value <= $max)', 'kani::ensures(|r: &$name| r.0 == value)']),
    ('newtype', r'pub const fn get\(self\)', ['kani::requires(self.0 <= $max)', 'kani::ensures(|r: &$repr| *r == self.0)']),
]
WOVEN = []
INNER = []


def weave(tmp, features):
    del WOVEN[:]
    for f, pat, attrs, _ in FREE:
        p = os.path.join(tmp, 'src', f)
        lines = open(p).read().split('\n')
        idx = [i for i, l in enumerate(lines) if re.search(pat, l)]
        if len(idx) != 1:
            raise Exception('lost anchor: %s in %s (%d matches)' % (pat, f, len(idx)))
        ind = re.match(r'\s*', lines[idx[0]]).group(0)
        lines[idx[0]:idx[0]] = [ind + '#[cfg_attr(kani, %s)]' % a for a in attrs]
        open(p, 'w').write('\n'.join(lines))
        WOVEN.append((f, pat))
    p = os.path.join(tmp, 'src', 'newtype_macros.rs')
    lines = open(p).read().split('\n')
    for mac, pat, attrs in MACRO:
        start = [i for i, l in enumerate(lines) if re.match(r'macro_rules!\s+%s\b' % mac, l)]
        if len(start) != 1:
            raise Exception('lost anchor: macro_rules! ' + mac)
        j = start[0]
        end = next((i for i in range(j + 1, len(lines)) if re.match(r'macro_rules!', lines[i])), len(lines))
        idx = [i for i in range(j, end) if re.search(pat, lines[i])]
        if len(idx) != 1:
            raise Exception('lost anchor: %s in macro %s (%d matches)' % (pat, mac, len(idx)))
        ind = re.match(r'\s*', lines[idx[0]]).group(0)
        lines[idx[0]:idx[0]] = [ind + '#[cfg_attr(kani, %s)]' % a for a in attrs]
        WOVEN.append(('newtype_macros.rs', mac + ' :: ' + pat))
    open(p, 'w').write('\n'.join(lines))
    open(os.path.join(tmp, 'src', 'verif_kani_sm.rs'), 'w').write(''.join(INNER))
    with open(os.path.join(tmp, 'src', 'short_message.rs'), 'a') as fh:
        fh.write('\n#[cfg(kani)]\n#[path = "verif_kani_sm.rs"]\nmod verif_kani_inner;\n')


def tpath(t):
    return 'crate::%s::%s' % (MODS[t], t) if t in MODS else t


def build(repo, features):
    R = [k_short.SPEC.replace('// GENERATED by /verif/contracts/kani/k_short.py', '// GENERATED by /verif/contracts/kani/k_contracts.py (spec part shared with k_short)')]
    H = []
    # kani::Arbitrary for the restricted integers (range-constrained): needed by stub_verified to havoc results
    for t, (rp, mx) in k_newtype.TYPES.items():
        R.append('impl kani::Arbitrary for %s { fn any() -> Self { let v: %s = kani::any(); kani::assume(v <= %d); %s(v) } }\n' % (tpath(t), rp, mx, tpath(t)))

    def add(name, target_path, body, tags, target, checks, attrs='', **kw):
        R.append('%s#[kani::proof_for_contract(%s)]\nfn %s() {\n%s\n}\n' % (attrs, target_path, name, body))
        d = {'name': name, 'tags': tags, 'target': target, 'checks': checks, 'expect': 'pass', 'contract': True, 'paired': True, 'covers': ['fn ' + target.split('::')[-1].split(' ')[0]] if '::' in target and 'as core::convert' not in target else []}
        d.update(kw)
        H.append(d)

    # ---- free functions / inherent methods
    add('pc_extract_high', 'crate::bit_util::extract_high_7_bit_value_from_14_bit_value', '    let _ = crate::bit_util::extract_high_7_bit_value_from_14_bit_value(U14(kani::any()));', ['C01', 'C04', 'C07', 'C09'], 'bit_util::extract_high_7_bit_value_from_14_bit_value', 'requires v <= 16383; ensures r == v / 128, r <= 127')
    add('pc_extract_low', 'crate::bit_util::extract_low_7_bit_value_from_14_bit_value', '    let _ = crate::bit_util::extract_low_7_bit_value_from_14_bit_value(U14(kani::any()));', ['C01', 'C04', 'C07', 'C09'], 'bit_util::extract_low_7_bit_value_from_14_bit_value', 'requires v <= 16383 (type invariant); ensures r == v % 128')
    add('pc_build_14', 'crate::bit_util::build_14_bit_value_from_two_7_bit_values', '    let _ = crate::bit_util::build_14_bit_value_from_two_7_bit_values(U7(kani::any()), U7(kani::any()));', ['C01', 'C02', 'C04', 'C08', 'C11'], 'bit_util::build_14_bit_value_from_two_7_bit_values', 'requires h,l <= 127; ensures r == h * 128 + l')
    add('pc_build_status', 'crate::bit_util::build_status_byte', '    let _ = crate::bit_util::build_status_byte(kani::any(), Channel(kani::any()));', ['C01', 'C06'], 'bit_util::build_status_byte', 'ensures r == type | channel')
    add('pc_extract_channel', 'crate::bit_util::extract_channel_from_status_byte', '    let _ = crate::bit_util::extract_channel_from_status_byte(kani::any());', ['C01', 'C02', 'C04'], 'bit_util::extract_channel_from_status_byte', 'ensures r == byte % 16')
    INNER.clear()
    INNER.append('#![allow(unused)]\nuse super::*;\nuse crate::*;\n')
    for nm, fnname, call, tags, chk in [
        ('pc_low_nibble', 'extract_low_nibble_from_byte', 'extract_low_nibble_from_byte(kani::any())', ['C01', 'C04'], 'ensures r == byte % 16'),
        ('pc_high_nibble', 'extract_high_nibble_from_byte', 'extract_high_nibble_from_byte(kani::any())', ['C01', 'C02'], 'ensures r == byte / 16'),
        ('pc_byte_from_nibbles', 'build_byte_from_nibbles', 'build_byte_from_nibbles(kani::any(), kani::any())', ['C01', 'C02'], 'requires nibbles <= 15; ensures r == h * 16 + l'),
        ('pc_mtc_byte', 'build_mtc_quarter_frame_data_byte', 'build_mtc_quarter_frame_data_byte(kani::any(), U4(kani::any()))', ['C01', 'C04'], 'requires type <= 7, data <= 15; ensures r == type * 16 + data'),
    ]:
        INNER.append('#[kani::proof_for_contract(%s)]\nfn %s() {\n    let _ = %s;\n}\n' % (fnname, nm, call))
        H.append({'name': nm, 'tags': tags, 'target': 'short_message::' + fnname, 'checks': chk, 'expect': 'pass', 'contract': True, 'path': 'short_message::verif_kani_inner::' + nm})
    for fn, tags in [('can_be_part_of_14_bit_control_change_message', ['C16']), ('corresponding_14_bit_lsb_controller_number', ['C16', 'C07']), ('is_parameter_number_message_controller_number', ['C16']), ('is_channel_mode_message_controller_number', ['C02'])]:
        add('pc_' + fn[:28], 'crate::controller_number_mod::ControllerNumber::' + fn, '    let n = ControllerNumber(kani::any());\n    let _ = n.%s();' % fn, tags, 'ControllerNumber::' + fn, 'predicate == documented range')
    # ---- every instantiation of the conversion macros (contract lives in the macro body)
    for name, args, f in k_newtype.invocations(repo):
        if name == 'newtype' or '(hand-written impl)' in f:
            continue
        a, b = [k_newtype.norm_ty(x) for x in args.split(',')]
        hn = re.sub(r'\W', '_', '%s__%s' % (a, b))
        tr = 'TryFrom' if 'try_from' in name else 'From'
        fn = 'try_from' if 'try_from' in name else 'from'
        path = '<%s as core::convert::%s<%s>>::%s' % (tpath(b), tr, tpath(a), fn)
        arg = '%s(kani::any())' % tpath(a) if a in MODS else 'kani::any::<%s>()' % a
        add('pc_%s_%s' % (fn, hn), path, '    let _ = %s(%s);' % (path, arg), ['C04', 'C05'], '%s  (%s!, contract in the macro body)' % (path, name), 'contract of the macro body proved for this instantiation over the full input domain')
    for t, (rp, mx) in k_newtype.TYPES.items():
        add('pc_new_%s' % t, '%s::new' % tpath(t), '    let _ = %s::new(kani::any());' % tpath(t), ['C04', 'C05'], '%s::new (newtype!)' % t, 'requires v <= max; ensures r.0 == v')
        add('pc_get_%s' % t, '%s::get' % tpath(t), '    let _ = %s(kani::any()).get();' % tpath(t), ['C05'], '%s::get (newtype!)' % t, 'ensures r == self.0')
    # ---- callers verified against the callees' contracts only (stub_verified)
    SV = ''.join('#[kani::stub_verified(%s)]\n' % p for p in ['crate::bit_util::build_14_bit_value_from_two_7_bit_values', 'crate::bit_util::extract_channel_from_status_byte'])
    R.append(SV + '''#[kani::proof]
fn modular_structured_from_bytes() {
    let b = any_valid_bytes();
    let m = unsafe { <StructuredShortMessage as ShortMessageFactory>::from_bytes_unchecked(u3(b)) };
    checks!((m == sp_structured(b), "[C01][C02] StructuredShortMessage::from_bytes_unchecked builds the structured view (callees replaced by their contracts)"));
    kani::cover!(true, "END");
}
''')
    H.append({'name': 'modular_structured_from_bytes', 'tags': ['C01', 'C02'], 'target': 'StructuredShortMessage::from_bytes_unchecked against the contracts of build_14_bit_value_from_two_7_bit_values / extract_channel_from_status_byte (stub_verified)', 'checks': 'caller checked against callee contracts, not bodies', 'expect': 'pass'})
    SV2 = ''.join('#[kani::stub_verified(%s)]\n' % p for p in ['crate::bit_util::extract_high_7_bit_value_from_14_bit_value', 'crate::bit_util::extract_low_7_bit_value_from_14_bit_value', 'crate::bit_util::build_status_byte'])
    R.append(SV2 + '''#[kani::proof]
fn modular_structured_to_bytes() {
    let x = any_Structured();
    let b = raw3(x.to_bytes());
    checks!((sp_structured(b) == x, "[C01] StructuredShortMessage::{status_byte,data_byte_1,data_byte_2} are the inverse table (callees replaced by their contracts)"),
            (b.0 >= 0x80 && b.1 <= 127 && b.2 <= 127, "[C01][C04] bytes are valid"));
    kani::cover!(true, "END");
}
''')
    H.append({'name': 'modular_structured_to_bytes', 'tags': ['C01'], 'target': 'StructuredShortMessage getters against the contracts of extract_high/low_7_bit_value / build_status_byte (stub_verified)', 'checks': 'caller checked against callee contracts, not bodies', 'expect': 'pass'})
    return ''.join(R), H
