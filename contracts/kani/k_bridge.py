"""Kani unit k_bridge: one crate build that carries the bridge contracts B1/B2 (from k_short) and everything of
k_frame (B3, frame / allocation harnesses).  Used as the Kani step of the Verus-decided properties."""
import importlib
import k_short
import k_frame
import k_public

ROOT_MODULES = {}
FALLBACK_PUBLIC = True
TRUSTED = sorted(set(k_short.TRUSTED + k_frame.TRUSTED))


def build(repo, features):
    importlib.reload(k_short)
    importlib.reload(k_frame)
    t1, m1 = k_short.build(repo, features)
    t2, m2 = k_frame.build(repo, features)
    importlib.reload(k_public)
    t3, m3 = k_public.build(repo, features)
    ROOT_MODULES.clear()
    ROOT_MODULES['verif_kani_pub'] = t3
    metas = [m for m in m1 if m['name'].startswith('bridge_') or m['name'] == 'new_equals_default'] + m2 + m3
    for m in metas:
        if m['name'].startswith('bridge_') or m['name'] == 'new_equals_default':
            m['public'] = True     # does not touch the private representation of the scanners
    return t1, metas


def weave(tmp, features):
    k_frame.weave(tmp, features)
