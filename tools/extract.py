#!/usr/bin/env python3
"""Mechanical extraction of real helgoboss-midi items into one single-file Verus unit, with the
contracts of /verif/contracts woven in.

  extract.py <unit> <slice> <repo> <outfile>

* function bodies are copied by character span, never re-written;
* every inserted span is bracketed  /*@+*/ ... /*@-*/ ; every deleted source span is kept as a
  comment  /*@del<<...>>*/  so that the fidelity check can undo both and compare the residual token
  stream of each item with the token stream of the source item;
* anything the extractor does not understand raises Unsupported (=> exit 2, never a verdict).
"""
import hashlib
import json
import os
import re
import sys

sys.path.insert(0, os.path.dirname(os.path.abspath(__file__)))
import rustlex
from rustlex import lex, significant, parse_items, walk, match_close, code_tokens

INS_O, INS_C = '/*@+*/', '/*@-*/'


class Unsupported(Exception):
    pass


class LostAnchor(Exception):
    pass


def ins(text):
    return INS_O + text + INS_C


def dele(text):
    if '*/' in text or '>>*/' in text:
        raise Unsupported('cannot comment out text containing a comment terminator')
    return '/*@del<<' + text + '>>*/'


# ----------------------------------------------------------------------------- cfg evaluation
def _cfg_parse(toks, i):
    """toks: list of token texts.  returns (ast, next)"""
    t = toks[i]
    if t in ('all', 'any', 'not') and i + 1 < len(toks) and toks[i + 1] == '(':
        args = []
        j = i + 2
        while toks[j] != ')':
            a, j = _cfg_parse(toks, j)
            args.append(a)
            if toks[j] == ',':
                j += 1
        return (t, args), j + 1
    if i + 2 < len(toks) and toks[i + 1] == '=':
        return ('kv', t, toks[i + 2].strip('"')), i + 3
    return ('flag', t), i + 1


def cfg_eval_expr(text, features):
    toks = code_tokens(text)
    ast, j = _cfg_parse(toks, 0)

    def ev(a):
        if a[0] == 'all':
            return all(ev(x) for x in a[1])
        if a[0] == 'any':
            return any(ev(x) for x in a[1])
        if a[0] == 'not':
            if len(a[1]) != 1:
                raise Unsupported('cfg not() arity')
            return not ev(a[1][0])
        if a[0] == 'kv':
            if a[1] == 'feature':
                return a[2] in features
            raise Unsupported('cfg key ' + a[1])
        if a[0] == 'flag':
            if a[1] in ('test', 'kani', 'doc', 'doctest', 'debug_assertions'):
                return a[1] == 'debug_assertions'
            raise Unsupported('cfg flag ' + a[1])
    return ev(ast)


def attr_inner(text):
    """'#[derive(A, B)]' -> ('derive', 'A, B') ; '#[repr(u8)]' -> ('repr','u8'); '#[doc = ".."]' -> ('doc', '= ".."')"""
    m = re.match(r'#\s*!?\s*\[\s*([A-Za-z_:0-9]+)\s*(.*)\]\s*$', text, re.S)
    if not m:
        raise Unsupported('attribute ' + text)
    name, rest = m.group(1), m.group(2).strip()
    if rest.startswith('(') and rest.endswith(')'):
        rest = rest[1:-1]
    return name, rest


def split_top(text, sep=','):
    """split at depth-0 separators (token level)"""
    toks = significant(lex(text))
    parts, cur, depth = [], [], 0
    for t in toks:
        if t.kind == 'punct' and t.text in rustlex.OPEN:
            depth += 1
        elif t.kind == 'punct' and t.text in rustlex.CLOSE:
            depth -= 1
        if depth == 0 and t.kind == 'punct' and t.text == sep:
            parts.append(cur)
            cur = []
        else:
            cur.append(t)
    if cur:
        parts.append(cur)
    return [text[p[0].start:p[-1].end] for p in parts if p]


DROP_DERIVES = {'derive_more::Display', 'derive_more::Into', 'IntoPrimitive', 'TryFromPrimitive',
                'Serialize', 'Deserialize', 'serde::Serialize', 'serde::Deserialize',
                'Serialize_repr', 'Deserialize_repr'}


def process_attrs(item, features, log, structural=True, expand_default=False):
    """Return (keep_item, attr_text, info).  Evaluates cfg / cfg_attr; rewrites derive lists."""
    out = []
    info = {'dropped_attrs': [], 'derive_dropped': [], 'derive_added': []}
    attrs = [a[2] for a in item.attrs]
    k = 0
    while k < len(attrs):
        a = attrs[k]
        k += 1
        name, rest = attr_inner(a)
        if name == 'cfg':
            if not cfg_eval_expr(rest, features):
                return False, '', info
            info['dropped_attrs'].append(a)
            continue
        if name == 'cfg_attr':
            parts = split_top(rest)
            if cfg_eval_expr(parts[0], features):
                for p in parts[1:]:
                    attrs.insert(k, '#[' + p + ']')
            info['dropped_attrs'].append(a)
            continue
        if name in ('doc', 'allow', 'deprecated', 'must_use', 'inline', 'macro_use', 'display', 'serde', 'non_exhaustive'):
            info['dropped_attrs'].append(a)
            continue
        if name == 'derive':
            ds = [d.strip() for d in split_top(rest)]
            keep = []
            for d in ds:
                if d in DROP_DERIVES:
                    info['derive_dropped'].append(d)
                elif d == 'Default' and expand_default:
                    info['derive_dropped'].append('Default(expanded)')
                else:
                    keep.append(d)
            if structural and 'PartialEq' in keep and 'Eq' in keep:
                keep.append(ins('Structural'))
                info['derive_added'].append('Structural')
            out.append('#[derive(' + ', '.join(keep) + ')]')
            continue
        if name == 'repr':
            out.append(a)
            continue
        raise Unsupported('attribute %s on %s' % (a, item.key()))
    return True, '\n'.join(out) + ('\n' if out else ''), info


# ----------------------------------------------------------------------------- macro_rules expander (subset)
def parse_macro_rules(src, item):
    """single-arm macro_rules!: returns (pattern_tokens, transcriber_text)"""
    lo, hi = item.macro_args
    body = src[lo:hi]
    toks = significant(lex(body))
    if toks[0].text != '(':
        raise Unsupported('macro_rules arm')
    e = match_close(toks, 0)
    pat = toks[1:e]
    if toks[e + 1].text != '=' or toks[e + 2].text != '>':
        raise Unsupported('macro_rules arrow')
    b = e + 3
    be = match_close(toks, b)
    rest = toks[be + 1:]
    if [t.text for t in rest] not in ([], [';']):
        raise Unsupported('macro_rules with more than one arm: ' + item.name)
    return body, pat, (toks[b].end, toks[be].start)


def macro_match(body, pat, args_text):
    """Match invocation args against pattern.  Supports $x:ident|ty|literal|meta and one level of $( ... )* ."""
    at = significant(lex(args_text))
    binds = {}
    i = 0  # index in at
    p = 0
    n = len(pat)

    def capture(kind, stop):
        nonlocal i
        start = i
        if kind in ('ident', 'literal'):
            i += 1
        elif kind in ('ty', 'meta', 'expr'):
            depth = 0
            while i < len(at):
                t = at[i]
                if depth == 0 and stop is not None and t.text == stop:
                    break
                if t.text in rustlex.OPEN or t.text == '<':
                    depth += 1
                elif t.text in rustlex.CLOSE or t.text == '>':
                    if depth == 0:
                        break
                    depth -= 1
                i += 1
        else:
            raise Unsupported('macro fragment kind ' + kind)
        if i == start:
            raise Unsupported('empty macro fragment')
        return args_text[at[start].start:at[i - 1].end]

    def match_seq(pat, p, pend, rep=None):
        nonlocal i
        while p < pend:
            t = pat[p]
            if t.text == '$' and pat[p + 1].text == '(':
                e = match_close(pat, p + 1)
                op = pat[e + 1].text
                if op not in ('*',):
                    raise Unsupported('macro repetition operator')
                inner = pat[p + 2:e]
                first = inner[0].text
                reps = []
                while i < len(at) and at[i].text == first:
                    sub = {}
                    match_seq(inner, 0, len(inner), sub)
                    reps.append(sub)
                binds.setdefault('$rep', []).append(reps)
                p = e + 2
                continue
            if t.text == '$':
                name = pat[p + 1].text
                if pat[p + 2].text != ':':
                    raise Unsupported('macro fragment syntax')
                kind = pat[p + 3].text
                nxt = pat[p + 4].text if p + 4 < pend else None
                val = capture(kind, nxt)
                (rep if rep is not None else binds)[name] = val
                p += 4
                continue
            if t.text in rustlex.OPEN:
                e = match_close(pat, p)
                if at[i].text != t.text:
                    raise Unsupported('macro args mismatch')
                i += 1
                match_seq(pat, p + 1, e, rep)
                if at[i].text != pat[e].text:
                    raise Unsupported('macro args mismatch (close)')
                i += 1
                p = e + 1
                continue
            if i >= len(at) or at[i].text != t.text:
                raise Unsupported('macro args mismatch at %r' % t.text)
            i += 1
            p += 1
    match_seq(pat, 0, n)
    if i != len(at):
        # allow trailing comma? not in this crate
        raise Unsupported('macro args: trailing tokens')
    return binds


def macro_transcribe(body, span, binds):
    lo, hi = span
    text = body[lo:hi]
    toks = significant(lex(text))
    out = []
    pos = 0
    i = 0
    reps = list(binds.get('$rep', []))
    while i < len(toks):
        t = toks[i]
        if t.text == '$':
            out.append(text[pos:t.start])
            nx = toks[i + 1]
            if nx.text == '(':
                e = match_close(toks, i + 1)
                inner_lo, inner_hi = nx.end, toks[e].start
                if toks[e + 1].text != '*':
                    raise Unsupported('transcriber repetition')
                if not reps:
                    raise Unsupported('transcriber repetition without binding')
                r = reps.pop(0)
                for sub in r:
                    out.append(macro_transcribe(text, (inner_lo, inner_hi), sub))
                    out.append('\n')
                pos = toks[e + 1].end
                i = e + 2
                continue
            if nx.text == 'crate':
                out.append('crate')
            else:
                if nx.text not in binds:
                    raise Unsupported('unbound macro variable $' + nx.text)
                out.append(binds[nx.text])
            pos = nx.end
            i += 2
            continue
        i += 1
    out.append(text[pos:])
    return ''.join(out)


# ----------------------------------------------------------------------------- contracts
class Contracts:
    """Parsed .vc files.

    === fn <key>                 key = '<file>::<item key>'  or  'macro <name>::<item key>' for items of an expansion
    ret <name>
    requires[tags]: <expr>       (continuation lines are indented)
    ensures[tags]: <expr>
    decreases[tags]: <expr>
    === loop <key> #<ordinal>
    iter <name>
    invariant[tags]: <expr>
    decreases[tags]: <expr>
    === prelude[tags] <title>
    <verus text up to the next ===>
    === fromspec                  (options for the generated FromSpecImpl blocks)
    """

    def __init__(self):
        self.fns = {}
        self.loops = {}
        self.preludes = []   # (tags, title, text)
        self.files = []
        self.aliases = {}
        self.broadcasts = []

    def tags(self, text):
        out = []
        for x in text.split(','):
            x = x.strip()
            out.extend(self.aliases.get(x, [x]))
        return out

    def load(self, path):
        self.files.append(path)
        cur = None
        lines = open(path).read().split('\n')
        i = 0
        while i < len(lines):
            ln = lines[i]
            if ln.startswith('=== '):
                head = ln[4:].strip()
                if head.startswith('broadcast '):
                    self.broadcasts.append(head[len('broadcast '):].strip())
                    cur = None
                elif head.startswith('alias '):
                    m = re.match(r'alias (\w+)\s*=\s*(.*)$', head)
                    self.aliases[m.group(1)] = self.tags(m.group(2))
                    cur = None
                elif head.startswith('fn '):
                    key = head[3:].strip()
                    cur = ('fn', self.fns.setdefault(key, {'ret': None, 'clauses': [], 'key': key, 'src': path, 'mode': None}))
                elif head.startswith('loop '):
                    m = re.match(r'loop (.*) #(\d+)$', head)
                    key = (m.group(1).strip(), int(m.group(2)))
                    cur = ('loop', self.loops.setdefault(key, {'iter': None, 'clauses': [], 'key': key, 'src': path}))
                elif head.startswith('prelude'):
                    m = re.match(r'prelude\[([^\]]*)\]\s*(.*)$', head)
                    tags = self.tags(m.group(1))
                    ent = [tags, m.group(2), []]
                    self.preludes.append(ent)
                    cur = ('prelude', ent)
                else:
                    raise Unsupported('contract file section ' + head)
                i += 1
                continue
            if cur is None:
                i += 1
                continue
            if cur[0] == 'prelude':
                cur[1][2].append(ln)
                i += 1
                continue
            s = ln.strip()
            if not s or s.startswith('//'):
                i += 1
                continue
            m = re.match(r'(ret|iter|mode)\s+(\S+)$', s)
            if m:
                cur[1][m.group(1)] = m.group(2)
                i += 1
                continue
            m = re.match(r'(requires|ensures|invariant|decreases|recommends)\[([^\]]*)\]:\s*(.*)$', s)
            if not m:
                raise Unsupported('contract line %s:%d: %s' % (path, i + 1, ln))
            kind, tags, expr = m.group(1), self.tags(m.group(2)), m.group(3)
            i += 1
            while i < len(lines) and (lines[i].startswith('    ') or lines[i].startswith('\t')) and not re.match(r'\s*(requires|ensures|invariant|decreases|recommends)\[', lines[i]):
                expr += '\n        ' + lines[i].strip()
                i += 1
            cur[1]['clauses'].append({'kind': kind, 'tags': tags, 'expr': expr})
        return self


def key_matches(relkey, pats):
    for p in pats:
        if p == relkey:
            return True
        try:
            if re.fullmatch(p, relkey):
                return True
        except re.error:
            pass
    return False


def in_slice(tags, sl):
    return sl == 'ALL' or '*' in tags or sl in tags


CLAUSES = []   # registry of woven clauses of the current extraction: index = clause id


def clause_text(clauses, sl, kinds, owner=''):
    out = []
    for kind in kinds:
        cs = [c for c in clauses if c['kind'] == kind and in_slice(c['tags'], sl)]
        if cs:
            out.append('    ' + kind + '\n')
            for c in cs:
                cid = len(CLAUSES)
                CLAUSES.append({'id': cid, 'owner': owner, 'kind': kind, 'tags': c['tags'], 'expr': c['expr']})
                out.append('        /*@c:%d*/%s,\n' % (cid, c['expr']))
    return ''.join(out)


# ----------------------------------------------------------------------------- function weaving
def weave_fn(src, item, contract, sl, loops, keybase, used):
    """Return the woven text of fn item (from head_start).  src is the text the item's offsets refer to."""
    sig = src[item.head_start:item.sig_end]
    body = src[item.body_start:item.body_end] if item.body_start is not None else None
    out_sig = sig
    pre = ''
    if contract is not None:
        used.add(contract['key'])
        stoks = significant(lex(sig))
        if any(t.text == 'where' for t in stoks):
            raise Unsupported('where clause on contracted fn ' + item.key())
        # locate `->` at depth 0
        depth = 0
        arrow = None
        for k, t in enumerate(stoks):
            if t.text in rustlex.OPEN:
                depth += 1
            elif t.text in rustlex.CLOSE:
                depth -= 1
            elif depth == 0 and t.text == '-' and k + 1 < len(stoks) and stoks[k + 1].text == '>' and stoks[k + 1].start == t.end:
                arrow = k
                break
        spec = clause_text(contract['clauses'], sl, ['requires', 'ensures', 'decreases'], keybase)
        if contract['ret'] and arrow is not None and spec:
            rt_start = stoks[arrow + 2].start
            rt_end = stoks[-1].end
            out_sig = sig[:rt_start] + ins('(' + contract['ret'] + ': ') + sig[rt_start:rt_end] + ins(')') + sig[rt_end:]
        elif contract['ret'] and arrow is None and spec and re.search(r'\b%s\b' % re.escape(contract['ret']), spec):
            raise Unsupported('contract names a result but fn has no return type: ' + item.key())
        if spec:
            pre = ins('\n' + spec)
    if body is None:
        return out_sig + pre + ';'
    # loops
    body_out = body
    lkeys = sorted([k for k in loops if k[0] == keybase], key=lambda k: k[1])
    if lkeys:
        btoks = significant(lex(body))
        loop_idx = [k for k, t in enumerate(btoks) if t.kind == 'ident' and t.text in ('for', 'while', 'loop')]
        edits = []
        for lk in lkeys:
            lc = loops[lk]
            used.add(lk)
            if lk[1] >= len(loop_idx):
                raise LostAnchor('loop #%d of %s' % (lk[1], keybase))
            k = loop_idx[lk[1]]
            # header end: first `{` at delimiter depth 0
            depth, j = 0, k + 1
            in_tok = None
            while j < len(btoks):
                t = btoks[j]
                if t.text in ('(', '['):
                    depth += 1
                elif t.text in (')', ']'):
                    depth -= 1
                elif t.text == '{' and depth == 0:
                    break
                elif t.text == 'in' and depth == 0 and in_tok is None and btoks[k].text == 'for':
                    in_tok = t
                j += 1
            spec = clause_text(lc['clauses'], sl, ['invariant', 'decreases'], '%s loop#%d' % lk)
            if spec:
                if lc.get('iter') and in_tok is not None:
                    edits.append((in_tok.end, ' ' + ins(lc['iter'] + ':')))
                edits.append((btoks[j].start, ins('\n' + spec)))
        for pos, text in sorted(edits, reverse=True):
            body_out = body_out[:pos] + text + body_out[pos:]
    # declared rewrite: closure parameter `_` -> `_e`
    btoks = significant(lex(body_out))
    edits = []
    for k, t in enumerate(btoks):
        if t.text == '|' and k + 2 < len(btoks) and btoks[k + 1].text == '_' and btoks[k + 2].text == '|':
            edits.append((btoks[k + 1].start, btoks[k + 1].end, dele('_') + ins('_e')))
    for a, b, text in sorted(edits, reverse=True):
        body_out = body_out[:a] + text + body_out[b:]
    return out_sig + pre + body_out


def widen_fields(text):
    """declared rewrite: every field of a struct becomes `pub` (Verus refuses field access / constructors of
    types with restricted fields inside public specifications).  No effect on executable behaviour."""
    toks = significant(lex(text))
    k = 0
    while k < len(toks) and toks[k].text != 'struct':
        k += 1
    if k == len(toks):
        return text
    # find the field list: first `{` or `(` after the name at depth 0 (skip generics)
    j = k + 2
    depth = 0
    while j < len(toks):
        t = toks[j]
        if t.text == '<':
            depth += 1
        elif t.text == '>':
            depth -= 1
        elif depth == 0 and t.text in ('{', '('):
            break
        elif depth == 0 and t.text == ';':
            return text
        j += 1
    if j >= len(toks):
        return text
    e = match_close(toks, j)
    edits = []
    at_start = True
    i = j + 1
    d = 0
    while i < e:
        t = toks[i]
        if at_start:
            while toks[i].text == '#':
                i = match_close(toks, i + 1) + 1
            t = toks[i]
            if t.text == 'pub':
                if toks[i + 1].text == '(' and toks[i + 2].text in ('crate', 'super', 'in', 'self'):
                    c = match_close(toks, i + 1)
                    edits.append((toks[i + 1].start, toks[c].end, dele(text[toks[i + 1].start:toks[c].end])))
                    i = c + 1
                else:
                    i += 1
            else:
                edits.append((t.start, t.start, ins('pub ')))
            at_start = False
            continue
        if t.text in rustlex.OPEN or t.text == '<':
            d += 1
        elif t.text in rustlex.CLOSE or t.text == '>':
            d -= 1
        elif t.text == ',' and d == 0:
            at_start = True
            if i + 1 >= e:
                break
        i += 1
    for a, b, r in sorted(edits, reverse=True):
        text = text[:a] + r + text[b:]
    return text


def strip_docs(text):
    """remove doc comments and ordinary comments are kept (harmless)"""
    toks = lex(text)
    out = []
    for t in toks:
        if t.kind == 'doc':
            continue
        out.append(t.text)
    return ''.join(out)


def undo_marks(text):
    """inverse of ins()/dele(): used by the fidelity check"""
    out = []
    i = 0
    while True:
        j = text.find(INS_O, i)
        if j < 0:
            out.append(text[i:])
            break
        out.append(text[i:j])
        k = text.find(INS_C, j)
        if k < 0:
            raise Unsupported('unbalanced insertion marker')
        i = k + len(INS_C)
    text = ''.join(out)
    return re.sub(r'/\*@del<<(.*?)>>\*/', lambda m: m.group(1), text, flags=re.S)


# ----------------------------------------------------------------------------- unit assembly
class Extractor:
    def __init__(self, repo, unit, sl, contracts):
        self.repo, self.unit, self.sl, self.c = repo, unit, sl, contracts
        self.features = set(unit.get('features', ['std']))
        self.out = []
        self.manifest = {'unit': unit['name'], 'slice': sl, 'items': [], 'dropped': [], 'rewrites': [], 'from_impls': [], 'preludes': []}
        del CLAUSES[:]
        self.used = set()
        self.fidelity = []   # (key, source_tokens_sha, generated_text)
        self.macros = None
        self.elapsed_calls = 0

    # ---- helpers
    def read(self, f):
        return open(os.path.join(self.repo, 'src', f)).read()

    def load_macros(self):
        if self.macros is None:
            src = self.read('newtype_macros.rs')
            self.macros = {}
            for it in parse_items(src):
                if it.kind == 'macro_rules':
                    self.macros[it.name] = parse_macro_rules(src, it)
        return self.macros

    def emit(self, text):
        self.out.append(text)

    def record(self, key, src_text, gen_text, extra=None):
        toks = code_tokens(src_text)
        sha = hashlib.sha256(' '.join(toks).encode()).hexdigest()
        ent = {'key': key, 'sha256': sha, 'tokens': len(toks)}
        if extra:
            ent.update(extra)
        self.manifest['items'].append(ent)
        self.fidelity.append((key, toks, gen_text))

    # ---- one item
    def do_item(self, src, it, fkey, policy, indent=''):
        """returns generated text for item (with attributes) or '' if dropped"""
        key = fkey + '::' + it.key()
        relkey = it.key()
        if it.kind == 'use':
            if it.parent is None and (it.name.startswith('crate::') or it.name.startswith('super::') or it.name.startswith('serde') or it.name.startswith('num_enum')):
                self.manifest['dropped'].append({'key': key, 'why': 'use of crate-internal path (flat single-file unit)'})
                return ''
            keep, _, _ = process_attrs(it, self.features, None)
            if not keep:
                return ''
            return src[it.head_start:it.end] + '\n'
        if key_matches(relkey, policy.get('drop', [])) or (policy.get('mode') == 'only' and not any(relkey == k or relkey.startswith(k + '::') for k in policy.get('keep', [])) and not any(k.startswith(relkey + '::') for k in policy.get('keep', []))):
            why = policy.get('why', {})
            self.manifest['dropped'].append({'key': key, 'why': why.get(relkey, why.get('*', 'not part of this unit'))})
            return ''
        if it.kind == 'mod' and it.name == 'tests':
            keep, _, _ = process_attrs(it, self.features, None)
            if keep:
                raise Unsupported('mod tests without cfg(test)')
            return ''
        expand_default = relkey in policy.get('expand_default', [])
        keep, attrs, info = process_attrs(it, self.features, None, structural=relkey not in policy.get('no_structural', []), expand_default=expand_default)
        if not keep:
            self.manifest['dropped'].append({'key': key, 'why': 'cfg evaluates to false for features %s' % sorted(self.features)})
            return ''
        if it.kind == 'macro':
            return self.do_macro(src, it, fkey, policy)
        if it.kind == 'macro_rules':
            return ''
        if it.kind == 'fn':
            ckey = policy.get('contract_prefix', fkey) + '::' + relkey
            contract = self.c.fns.get(ckey)
            if contract is None and policy.get('binds'):
                g = relkey
                for var, val in sorted(policy['binds'].items(), key=lambda kv: -len(kv[1])):
                    g = re.sub(r'(?<![A-Za-z0-9_:])%s(?![A-Za-z0-9_])' % re.escape(val), '$' + var, g)
                ckey = policy['contract_prefix'] + '::' + g
                contract = self.c.fns.get(ckey)
            if contract is None and it.body_start is not None and not policy.get('allow_uncontracted'):
                # a function without a contract is still verified (panic freedom) but has no postcondition
                self.manifest['rewrites'].append({'key': key, 'what': 'no contract entry: verified for safety only'})
            if contract is not None and contract.get('mode') == 'external_body':
                attrs = ins('#[verifier::external_body]') + '\n' + attrs
            text = weave_fn(src, it, contract, self.sl, self.c.loops, ckey, self.used)
            text = strip_docs(text)
            self.record(key, src[it.head_start:it.end], text, {'kind': 'fn', 'contract': bool(contract),
                                                              'clauses': [c['kind'] + ': ' + c['expr'] for c in (contract['clauses'] if contract else []) if in_slice(c['tags'], self.sl)]})
            return attrs + text + '\n'
        if it.kind in ('impl', 'trait', 'mod'):
            if it.kind == 'trait':
                raise Unsupported('trait extraction: ' + key)
            head = src[it.head_start:it.inner_start]
            inner = []
            for ch in it.children:
                inner.append(self.do_item(src, ch, fkey, policy, indent + '    '))
            body = ''.join(inner)
            extra = ''
            m = re.match(r'impl\s*From<([A-Za-z0-9_:]+)>\s*for\s*([A-Za-z0-9_:]+)$', it.header or '')
            if m and policy.get('fromspec', True):
                extra = self.fromspec(m.group(1), m.group(2))
            gen = strip_docs(head) + '\n' + body + '}\n'
            # fidelity of the container header only (children recorded separately)
            self.record(key + ' {header}', head, strip_docs(head), {'kind': it.kind})
            return extra + attrs + gen
        if it.kind in ('struct', 'enum', 'const', 'static', 'type'):
            text = strip_docs(src[it.head_start:it.end])
            if it.kind == 'struct':
                text = widen_fields(text)
            if it.kind in ('struct', 'enum'):
                # declared rewrite: private data types become `pub` (needed so that contracts of public
                # functions may mention them); no effect on executable behaviour
                t0 = significant(lex(text))
                if t0[0].text != 'pub':
                    text = ins('pub ') + text
                elif t0[1].text == '(':
                    c = match_close(t0, 1)
                    text = text[:t0[1].start] + dele(text[t0[1].start:t0[c].end]) + text[t0[c].end:]
            self.record(key, src[it.head_start:it.end], text, {'kind': it.kind})
            extra = ''
            if expand_default:
                extra = self.expand_default(src, it)
            return attrs + text + '\n' + extra
        raise Unsupported('item kind %s (%s)' % (it.kind, key))

    def fromspec(self, frm, into):
        frm_s, into_s = frm.replace('crate::', ''), into.replace('crate::', '')
        prims = {'u8', 'i8', 'u16', 'i16', 'u32', 'i32', 'u64', 'i64', 'u128', 'i128', 'usize', 'isize'}
        if into_s in prims:
            expr = 'v.0 as %s' % into_s
        elif frm_s in prims:
            expr = '%s(v as %s)' % (into_s, self.unit['reprs'][into_s])
        else:
            expr = '%s(v.0 as %s)' % (into_s, self.unit['reprs'][into_s])
        self.manifest['from_impls'].append('%s -> %s' % (frm_s, into_s))
        return ins('impl vstd::std_specs::convert::FromSpecImpl<%s> for %s {\n    open spec fn obeys_from_spec() -> bool { true }\n    open spec fn from_spec(v: %s) -> %s { %s }\n}' % (frm_s, into_s, frm_s, into_s, expr)) + '\n'

    def expand_default(self, src, it):
        """field-wise impl Default standing for #[derive(Default)] (declared rewrite)"""
        if it.kind != 'struct' or it.inner_start is None:
            raise Unsupported('derive(Default) expansion on non-struct ' + it.key())
        fields = []
        for part in split_top(src[it.inner_start:it.inner_end]):
            toks = [t for t in significant(lex(part))]
            # skip attributes / visibility
            k = 0
            while toks[k].text == '#':
                k = match_close(toks, k + 1) + 1
            if toks[k].text == 'pub':
                k += 1
                if toks[k].text == '(':
                    k = match_close(toks, k) + 1
            fields.append(toks[k].text)
        self.manifest['rewrites'].append({'key': it.key(), 'what': 'derive(Default) expanded field-wise: ' + ', '.join(fields)})
        body = ', '.join('%s: Default::default()' % f for f in fields)
        c = self.c.fns.get('derive Default::' + it.name)
        spec = ''
        if c:
            self.used.add(c['key'])
            spec = clause_text(c['clauses'], self.sl, ['ensures'], 'derive Default::' + it.name)
        return ins('impl Default for %s {\n    fn default() -> (r: Self)\n%s    {\n        %s { %s }\n    }\n}' % (it.name, spec, it.name, body)) + '\n'

    def do_macro(self, src, it, fkey, policy):
        name = it.name
        args = src[it.macro_args[0]:it.macro_args[1]]
        if name == 'doc_comment':
            # doc_comment!(<doc expr>, <item>) expands to #[doc = <expr>] <item>
            parts = split_top(args)
            first = parts[0]
            rest_start = args.index(first) + len(first)
            rest = args[rest_start:]
            rest = rest[rest.index(',') + 1:]
            sub = parse_items(rest)
            out = []
            for s in sub:
                s.parent = it.parent
                out.append(self.do_item(rest, s, fkey, policy))
            return ''.join(out)
        macros = self.load_macros()
        if name not in macros:
            raise Unsupported('macro invocation %s!' % name)
        sel = policy.get('macros', {})
        if name not in sel:
            self.manifest['dropped'].append({'key': fkey + '::' + name + '!(' + ' '.join(code_tokens(args)) + ')', 'why': 'macro family not part of this unit (proved in the Kani unit)'})
            return ''
        body, pat, span = macros[name]
        binds = macro_match(body, pat, args)
        text = macro_transcribe(body, span, binds)
        sub = parse_items(text)
        pol = dict(sel[name])
        pol['contract_prefix'] = 'macro ' + name
        pol['binds'] = {k: v for k, v in binds.items() if isinstance(v, str)}
        out = []
        tag = '%s!(%s)' % (name, ' '.join(code_tokens(args))[:60])
        for s in sub:
            out.append(self.do_item(text, s, fkey + '::' + tag, pol))
        self.manifest['rewrites'].append({'key': fkey + '::' + tag, 'what': 'macro_rules expansion by substitution of the invocation fragments into the macro body'})
        return ''.join(out)

    def do_file(self, spec):
        f = spec['file']
        src = self.read(f)
        items = parse_items(src)
        self.emit('\n// ======================================================================\n// extracted from src/%s\n// ======================================================================\n' % f)
        for it in items:
            self.emit(self.do_item(src, it, f, spec))
        # syntactic guard of DESIGN 2.7: number of `.elapsed()` calls
        toks = code_tokens(src)
        self.elapsed_calls += sum(1 for k in range(len(toks) - 1) if toks[k] == '.' and toks[k + 1] == 'elapsed')

    def run(self):
        u = self.unit
        self.emit('// GENERATED by /verif/tools/extract.py -- unit %s, slice %s -- do not edit\n' % (u['name'], self.sl))
        self.emit('#![allow(unused_imports, dead_code, unused_variables, unused_mut, non_snake_case, unreachable_patterns, unused_parens)]\n')
        self.emit('use vstd::prelude::*;\nuse vstd::std_specs::iter::IteratorSpec;\n')
        for l in u.get('header', []):
            self.emit(l + '\n')
        self.emit('verus! {\n')
        for tags, title, lines in self.c.preludes:
            if 'TOP' in tags:
                self.emit('// ---- prelude (top): %s\n%s\n' % (title, '\n'.join(lines)))
        if self.c.broadcasts:
            self.emit('broadcast use {%s};\n' % ', '.join(self.c.broadcasts))
        for spec in u['files']:
            self.do_file(spec)
        for tags, title, lines in self.c.preludes:
            if 'TOP' in tags:
                continue
            if in_slice(tags, self.sl):
                pid = len(self.manifest['preludes'])
                self.manifest['preludes'].append({'id': pid, 'tags': tags, 'title': title})
                self.emit('\n// ---- prelude [%s]: %s\n/*@p:%d<*/\n%s\n/*@p:%d>*/\n' % (','.join(tags), title, pid, '\n'.join(lines), pid))
        # vacuity canary: must be the one and only failing obligation of an otherwise clean run
        self.emit('\n/*@canary<*/ proof fn verif_canary() ensures false {} /*@canary>*/\n')
        self.emit('\n} // verus!\nfn main() {}\n')
        # anchors: every contract entry of this unit must have been used
        missing = []
        for k in self.c.fns:
            if k not in self.used:
                missing.append(k)
        for k in self.c.loops:
            if k not in self.used:
                missing.append('%s #%d' % k)
        if missing:
            raise LostAnchor('contract entries without a matching item: ' + '; '.join(missing))
        if self.elapsed_calls > u.get('max_elapsed_calls', 0):
            raise Unsupported('more than %d `.elapsed()` call(s) in the extracted files: the clock_reading assumption (DESIGN 2.7) would be unsound' % u.get('max_elapsed_calls', 0))
        text = ''.join(self.out)
        self.check_fidelity()
        # line map of woven clauses, prelude blocks, canary and extracted items
        lines = text.split('\n')
        cl = {}
        for n, ln in enumerate(lines, 1):
            for m in re.finditer(r'/\*@c:(\d+)\*/', ln):
                cid = int(m.group(1))
                c = dict(CLAUSES[cid])
                c['line_start'] = n
                c['line_end'] = n + c['expr'].count('\n')
                cl[cid] = c
            for m in re.finditer(r'/\*@p:(\d+)([<>])\*/', ln):
                self.manifest['preludes'][int(m.group(1))]['line_start' if m.group(2) == '<' else 'line_end'] = n
            if '/*@canary<*/' in ln:
                self.manifest['canary_line'] = n
        self.manifest['clauses'] = [cl[k] for k in sorted(cl)]
        self.manifest['trusted_scan'] = scan_trusted(text)
        return text

    def check_fidelity(self):
        for key, src_toks, gen in self.fidelity:
            back = code_tokens(undo_marks(gen))
            if back != src_toks:
                # find first difference
                k = 0
                while k < min(len(back), len(src_toks)) and back[k] == src_toks[k]:
                    k += 1
                raise Unsupported('fidelity mismatch in %s at token %d: source %r vs generated %r' % (key, k, src_toks[k:k + 5], back[k:k + 5]))
        self.manifest['fidelity'] = 'ok: %d items round-trip to their source token streams' % len(self.fidelity)


def scan_trusted(text):
    """mechanical scan of the generated file for everything that is assumed rather than proved"""
    found = []
    for n, ln in enumerate(text.split('\n'), 1):
        code = ln.split('//')[0]
        for pat in ('assume(', 'admit(', 'external_body', 'assume_specification', 'axiom fn', 'uninterp spec fn', 'external_type_specification', 'external_trait_specification'):
            if pat in code:
                found.append({'line': n, 'what': pat, 'text': ln.strip()[:200]})
    return found


def load_unit(name):
    sys.path.insert(0, os.path.join(os.path.dirname(os.path.abspath(__file__)), '..', 'contracts'))
    import units
    return units.UNITS[name]


def build(unit_name, sl, repo, outfile):
    unit = load_unit(unit_name)
    c = Contracts()
    cdir = os.path.join(os.path.dirname(os.path.abspath(__file__)), '..', 'contracts')
    for f in unit['contracts']:
        c.load(os.path.join(cdir, f))
    for g in unit.get('gen_preludes', []):
        ent = g(repo)
        if ent:
            c.preludes.append([ent[0], ent[1], ent[2].split('\n')])
    ex = Extractor(repo, unit, sl, c)
    text = ex.run()
    with open(outfile, 'w') as fh:
        fh.write(text)
    with open(outfile + '.manifest.json', 'w') as fh:
        json.dump(ex.manifest, fh, indent=1)
    return ex.manifest


if __name__ == '__main__':
    try:
        m = build(sys.argv[1], sys.argv[2], sys.argv[3], sys.argv[4])
        print('extracted %d items (%s)' % (len(m['items']), m['fidelity']))
    except (Unsupported, LostAnchor, rustlex.LexError) as e:
        print('EXTRACT-ERROR %s: %s' % (type(e).__name__, e))
        sys.exit(2)
