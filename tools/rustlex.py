"""Small Rust lexer + item scanner used by the extractor.

It does not parse expressions.  It only needs to
  * split a source text into tokens (comments and whitespace kept as trivia tokens),
  * find matching delimiters,
  * locate items (fn / struct / enum / impl / trait / mod / const / use / macro invocations)
    with their attributes, and for `fn` items the signature and body spans.
Function bodies are never re-written: they are copied by character span.
"""
import re

IDENT_RE = re.compile(r'(?:r#)?[A-Za-z_][A-Za-z0-9_]*')
NUM_RE = re.compile(r'[0-9][0-9A-Za-z_]*(?:\.[0-9][0-9A-Za-z_]*)?')
OPEN = {'(': ')', '[': ']', '{': '}'}
CLOSE = {')': '(', ']': '[', '}': '{'}


class Tok:
    __slots__ = ('kind', 'text', 'start', 'end')

    def __init__(self, kind, text, start, end):
        self.kind, self.text, self.start, self.end = kind, text, start, end

    def __repr__(self):
        return 'Tok(%s,%r)' % (self.kind, self.text)


class LexError(Exception):
    pass


def lex(src):
    """Return list of Tok.  kinds: ws, lcomment, bcomment, doc (/// //! /** /*!), str, char,
    lifetime, num, ident, punct."""
    toks = []
    i, n = 0, len(src)
    while i < n:
        c = src[i]
        if c.isspace():
            j = i
            while j < n and src[j].isspace():
                j += 1
            toks.append(Tok('ws', src[i:j], i, j))
            i = j
            continue
        if src.startswith('//', i):
            j = src.find('\n', i)
            if j < 0:
                j = n
            text = src[i:j]
            kind = 'doc' if (text.startswith('///') and not text.startswith('////')) or text.startswith('//!') else 'lcomment'
            toks.append(Tok(kind, text, i, j))
            i = j
            continue
        if src.startswith('/*', i):
            depth, j = 1, i + 2
            while j < n and depth:
                if src.startswith('/*', j):
                    depth += 1
                    j += 2
                elif src.startswith('*/', j):
                    depth -= 1
                    j += 2
                else:
                    j += 1
            if depth:
                raise LexError('unterminated block comment at %d' % i)
            text = src[i:j]
            kind = 'doc' if (text.startswith('/**') and not text.startswith('/***') and text != '/**/') or text.startswith('/*!') else 'bcomment'
            toks.append(Tok(kind, text, i, j))
            i = j
            continue
        # raw strings / byte strings
        m = re.match(r'(?:b|c)?r(#*)"', src[i:i + 40])
        if m and (i == 0 or not (src[i - 1].isalnum() or src[i - 1] == '_')):
            hashes = m.group(1)
            endpat = '"' + hashes
            j = src.find(endpat, i + m.end())
            if j < 0:
                raise LexError('unterminated raw string at %d' % i)
            j += len(endpat)
            toks.append(Tok('str', src[i:j], i, j))
            i = j
            continue
        if c == '"' or (c in 'bc' and i + 1 < n and src[i + 1] == '"'):
            j = i + (2 if c != '"' else 1)
            while j < n and src[j] != '"':
                if src[j] == '\\':
                    j += 1
                j += 1
            if j >= n:
                raise LexError('unterminated string at %d' % i)
            j += 1
            toks.append(Tok('str', src[i:j], i, j))
            i = j
            continue
        if c == "'" or (c == 'b' and i + 1 < n and src[i + 1] == "'"):
            k = i + (1 if c == "'" else 2)
            # char literal or lifetime
            if c == "'":
                m = re.match(r"'(?:\\(?:x[0-9a-fA-F]{2}|u\{[0-9a-fA-F_]+\}|.)|[^\\'])'", src[i:i + 16])
                if m:
                    j = i + m.end()
                    toks.append(Tok('char', src[i:j], i, j))
                    i = j
                    continue
                m = IDENT_RE.match(src, i + 1)
                if m:
                    toks.append(Tok('lifetime', src[i:m.end()], i, m.end()))
                    i = m.end()
                    continue
                raise LexError('bad quote at %d' % i)
            else:
                m = re.match(r"b'(?:\\(?:x[0-9a-fA-F]{2}|.)|[^\\'])'", src[i:i + 10])
                if m:
                    j = i + m.end()
                    toks.append(Tok('char', src[i:j], i, j))
                    i = j
                    continue
        m = IDENT_RE.match(src, i)
        if m:
            toks.append(Tok('ident', m.group(0), i, m.end()))
            i = m.end()
            continue
        m = NUM_RE.match(src, i)
        if m:
            # do not swallow `0..=31` as a float
            text = m.group(0)
            if '.' in text and src.startswith('..', i + text.index('.')):
                text = text[:text.index('.')]
            toks.append(Tok('num', text, i, i + len(text)))
            i += len(text)
            continue
        toks.append(Tok('punct', c, i, i + 1))
        i += 1
    return toks


def significant(toks):
    return [t for t in toks if t.kind not in ('ws', 'lcomment', 'bcomment', 'doc')]


def code_tokens(src):
    """Token texts with all trivia (whitespace, comments, doc comments) removed."""
    return [t.text for t in significant(lex(src))]


def match_close(toks, i):
    """toks: significant tokens; toks[i] is an opening delimiter; return index of its partner."""
    depth = 0
    j = i
    while j < len(toks):
        t = toks[j]
        if t.kind == 'punct':
            if t.text in OPEN:
                depth += 1
            elif t.text in CLOSE:
                depth -= 1
                if depth == 0:
                    return j
        j += 1
    raise LexError('unbalanced delimiter at %d' % toks[i].start)


ITEM_KW = ('fn', 'struct', 'enum', 'impl', 'trait', 'mod', 'const', 'static', 'use', 'type', 'macro_rules', 'extern', 'union')
QUALIFIERS = ('pub', 'unsafe', 'async', 'default', 'const', 'extern')


class Item:
    """One item.  Spans are character offsets into the file text.
    start      : start of the first attribute / doc comment (or of the item itself)
    head_start : start of the item proper (after attributes)
    end        : one past the item's last character
    For fn:  sig_end = offset of the body's `{` (or of `;`), body_start/body_end (braces included)
    For containers (impl/trait/mod with body): children, inner_start/inner_end (inside the braces)
    """

    def __init__(self):
        self.kind = None
        self.name = None
        self.start = self.head_start = self.end = 0
        self.attrs = []          # list of (start, end, text) for #[...] attributes, in order
        self.docs = []           # list of (start, end)
        self.children = []
        self.sig_end = None
        self.body_start = self.body_end = None
        self.inner_start = self.inner_end = None
        self.header = None       # for impl: normalised header text e.g. 'impl Default for State'
        self.parent = None
        self.macro_args = None   # for macro invocations: (start, end) of the inner token text

    def key(self):
        k = self.label()
        p = self.parent
        while p is not None:
            k = p.label() + '::' + k
            p = p.parent
        return k

    def label(self):
        if self.kind == 'impl':
            return self.header
        if self.kind == 'macro':
            return 'macro ' + self.name
        return '%s %s' % (self.kind, self.name)

    def __repr__(self):
        return '<Item %s>' % self.key()


def _norm(texts):
    out = ''
    for t in texts:
        if out and (out[-1].isalnum() or out[-1] == '_') and (t[0].isalnum() or t[0] == '_'):
            out += ' '
        out += t
    return out


def parse_items(src, lo=0, hi=None, parent=None, alltoks=None):
    """Parse the items in src[lo:hi]."""
    if alltoks is None:
        alltoks = lex(src)
    if hi is None:
        hi = len(src)
    toks = [t for t in alltoks if t.start >= lo and t.end <= hi and t.kind not in ('ws', 'lcomment', 'bcomment')]
    items = []
    i = 0
    n = len(toks)
    while i < n:
        it = Item()
        it.parent = parent
        it.start = toks[i].start
        # attributes and doc comments
        while i < n and (toks[i].kind == 'doc' or (toks[i].text == '#' and i + 1 < n and toks[i + 1].text in ('[', '!'))):
            if toks[i].kind == 'doc':
                it.docs.append((toks[i].start, toks[i].end))
                i += 1
                continue
            j = i + 1
            if toks[j].text == '!':
                j += 1
            k = match_close(toks, j)
            it.attrs.append((toks[i].start, toks[k].end, src[toks[i].start:toks[k].end]))
            i = k + 1
        if i >= n:
            if it.attrs or it.docs:
                # trailing inner attribute / docs only
                pass
            break
        it.head_start = toks[i].start
        # qualifiers
        j = i
        while j < n:
            t = toks[j]
            if t.text == 'pub':
                j += 1
                if j < n and toks[j].text == '(':
                    j = match_close(toks, j) + 1
                continue
            if t.text in ('unsafe', 'async', 'default') and j + 1 < n:
                j += 1
                continue
            if t.text == 'const' and j + 1 < n and toks[j + 1].text in ('fn', 'unsafe', 'async', 'extern'):
                j += 1
                continue
            if t.text == 'extern' and j + 1 < n and toks[j + 1].kind == 'str':
                j += 2
                continue
            break
        t = toks[j]
        if t.kind == 'punct' and t.text == ';':
            i = j + 1
            continue
        if t.kind == 'ident' and j + 1 < n and toks[j + 1].text == '!' and t.text != 'macro_rules':
            # macro invocation item: path ! (..) ; | path ! {..} | path![..];
            it.kind = 'macro'
            it.name = t.text
            k = j + 2
            # allow `a::b!`
            if toks[k].text not in OPEN:
                raise LexError('macro invocation without delimiter at %d' % t.start)
            e = match_close(toks, k)
            it.macro_args = (toks[k].end, toks[e].start)
            end = e
            if e + 1 < n and toks[e + 1].text == ';' and toks[k].text != '{':
                end = e + 1
            it.end = toks[end].end
            items.append(it)
            i = end + 1
            continue
        if t.kind == 'ident' and j + 2 < n and toks[j + 1].text == ':' and toks[j + 2].text == ':':
            # path macro invocation like doc_comment::doc_comment! { ... }
            k = j
            while k + 2 < n and toks[k + 1].text == ':' and toks[k + 2].text == ':':
                k += 3
            if k + 1 < n and toks[k + 1].text == '!':
                it.kind = 'macro'
                it.name = toks[k].text
                d = k + 2
                e = match_close(toks, d)
                it.macro_args = (toks[d].end, toks[e].start)
                end = e
                if e + 1 < n and toks[e + 1].text == ';' and toks[d].text != '{':
                    end = e + 1
                it.end = toks[end].end
                items.append(it)
                i = end + 1
                continue
        if t.text not in ITEM_KW:
            raise LexError('cannot parse item at offset %d: %r' % (t.start, src[t.start:t.start + 60]))
        kw = t.text
        if kw == 'macro_rules':
            it.kind = 'macro_rules'
            it.name = toks[j + 2].text
            k = j + 3
            e = match_close(toks, k)
            it.macro_args = (toks[k].end, toks[e].start)
            end = e
            if e + 1 < n and toks[e + 1].text == ';':
                end = e + 1
            it.end = toks[end].end
            items.append(it)
            i = end + 1
            continue
        it.kind = kw
        if kw == 'fn':
            it.name = toks[j + 1].text
            # find body `{` or `;` at depth 0 (skip over parens/brackets/generics)
            k = j + 2
            while k < n:
                x = toks[k]
                if x.text in ('(', '['):
                    k = match_close(toks, k) + 1
                    continue
                if x.text == '{' or x.text == ';':
                    break
                k += 1
            it.sig_end = toks[k].start
            if toks[k].text == '{':
                e = match_close(toks, k)
                it.body_start, it.body_end = toks[k].start, toks[e].end
                it.end = toks[e].end
                i = e + 1
            else:
                it.end = toks[k].end
                i = k + 1
            items.append(it)
            continue
        if kw in ('use', 'const', 'static', 'type'):
            if kw in ('const', 'static', 'type'):
                nm = toks[j + 1]
                if nm.text == 'mut':
                    nm = toks[j + 2]
                it.name = nm.text
            # to the terminating `;` at depth 0
            k = j + 1
            while k < n:
                x = toks[k]
                if x.text in OPEN:
                    k = match_close(toks, k) + 1
                    continue
                if x.text == ';':
                    break
                k += 1
            if kw == 'use':
                it.name = _norm([x.text for x in toks[j + 1:k]])
            it.end = toks[k].end
            items.append(it)
            i = k + 1
            continue
        # struct / enum / union / impl / trait / mod / extern
        k = j + 1
        header_toks = []
        while k < n:
            x = toks[k]
            if x.text == '(' or x.text == '[':
                e = match_close(toks, k)
                header_toks.extend(toks[k:e + 1])
                k = e + 1
                continue
            if x.text == '{' or x.text == ';':
                break
            header_toks.append(x)
            k += 1
        if kw == 'impl':
            it.header = 'impl ' + _norm([x.text for x in header_toks])
            it.name = it.header
        else:
            it.name = toks[j + 1].text if toks[j + 1].kind == 'ident' else kw
        if toks[k].text == ';':
            it.end = toks[k].end
            items.append(it)
            i = k + 1
            continue
        e = match_close(toks, k)
        it.inner_start, it.inner_end = toks[k].end, toks[e].start
        it.end = toks[e].end
        # tuple struct `struct X(..);` is handled above via ';' ; struct with where-clause fine
        if kw in ('impl', 'trait', 'mod'):
            it.children = parse_items(src, it.inner_start, it.inner_end, it, alltoks)
        items.append(it)
        i = e + 1
    return items


def walk(items):
    for it in items:
        yield it
        for c in walk(it.children):
            yield c


def find(items, key):
    for it in walk(items):
        if it.key() == key:
            return it
    return None
