#!/bin/sh
# regenerate every evidence file from a clean run against /repo (never against a scratch tree)
cd "$(dirname "$0")/.."
unset VERIF_REPO
rc=0
for p in C01 C02 C03 C04 C05 C06 C07 C08 C09 C10 C11 C12 C13 C14 C15 C16 C17 C18 C19; do
  /usr/bin/time -f "$p %e s" ./check $p || rc=1
done
exit $rc
