"""Kani side: weave the harness module (and, where enabled, contract attributes) into a scratch copy of the real
crate, run `cargo kani`, classify the outcome, and replay counterexamples natively (cargo kani playback).

step = {'kind': 'kani', 'unit': <name of contracts/kani/<unit>.py>, 'set': <property id>, 'features': None|'none'|'serde'}
The unit module provides  build(repo, features) -> (rust_text, [harness meta]) ; meta keys:
  name, tags [property ids], expect 'pass'|'panic', target (text), complete (bool), bound (text, when not complete),
  unwind (int, optional)
"""
import importlib
import os
import re
import shutil
import subprocess
import sys
import tempfile
import time

HERE = os.path.dirname(os.path.abspath(__file__))
ROOT = os.path.dirname(HERE)
sys.path.insert(0, os.path.join(ROOT, 'contracts', 'kani'))

KANI_FLAGS = ['-Z', 'function-contracts', '-Z', 'stubbing', '--output-format=terse']


def feature_args(features):
    if features == 'none':
        return ['--no-default-features']
    if features == 'serde':
        return ['--features', 'serde,serde_repr']
    return []


def prepare(repo, unit, features, public_only=False):
    tmp = tempfile.mkdtemp(prefix='verif_kani_')
    for f in ('Cargo.toml', 'Cargo.lock'):
        shutil.copy(os.path.join(repo, f), os.path.join(tmp, f))
    shutil.copytree(os.path.join(repo, 'src'), os.path.join(tmp, 'src'))
    os.makedirs(os.path.join(tmp, '.cargo'))
    open(os.path.join(tmp, '.cargo', 'config.toml'), 'w').write('[net]\noffline = true\n')
    mod = importlib.import_module(unit)
    importlib.reload(mod)
    text, metas = mod.build(repo, features)
    weave = getattr(mod, 'weave', None)
    if weave and not public_only:
        weave(tmp, features)
    open(os.path.join(tmp, 'src', 'verif_kani.rs'), 'w').write(text)
    lib = os.path.join(tmp, 'src', 'lib.rs')
    s = open(lib).read()
    # additive only: the harness module is appended; nothing of the crate is rewritten
    s += '\n#[cfg(kani)]\nmod verif_kani;\n'
    for name, txt in getattr(mod, 'ROOT_MODULES', {}).items():
        open(os.path.join(tmp, 'src', name + '.rs'), 'w').write(txt)
        s += '#[cfg(kani)]\nmod %s;\n' % name
    if getattr(mod, 'CRATE_ATTRS', None):
        s = mod.CRATE_ATTRS + '\n' + s
    open(lib, 'w').write(s)
    return tmp, metas


def parse_output(out):
    """returns {harness: {'result': 'SUCCESSFUL'|'FAILED'|..., 'failed': [(desc, file, line, fn)], 'covers': (sat, total, unreachable), 'time': s, 'note': str}}"""
    res = {}
    cur_by_thread = {}
    cur = None
    lines = out.split('\n')
    i = 0
    block_h = None
    while i < len(lines):
        ln = lines[i]
        m = re.match(r'(?:Thread (\d+): )?Checking harness (\S+?)\.\.\.', ln)
        if m:
            th = m.group(1) or '0'
            cur_by_thread[th] = m.group(2)
            res.setdefault(m.group(2), {'result': None, 'failed': [], 'covers': None, 'time': None, 'note': ''})
            if m.group(1) is None:
                block_h = m.group(2)
            i += 1
            continue
        m = re.match(r'Thread (\d+): *$', ln)
        if m:
            block_h = cur_by_thread.get(m.group(1))
            i += 1
            continue
        if block_h is not None:
            r = res[block_h]
            m = re.match(r'Failed Checks: (.*)$', ln)
            if m:
                desc = m.group(1).strip()
                loc = lines[i + 1].strip() if i + 1 < len(lines) else ''
                lm = re.match(r'File: "([^"]*)", line (\d+), in (\S+)', loc)
                r['failed'].append((desc, lm.group(1) if lm else '', int(lm.group(2)) if lm else 0, lm.group(3) if lm else ''))
            m = re.match(r' \*\* (\d+) of (\d+) cover properties satisfied(?: \((\d+) unreachable\))?', ln)
            if m:
                r['covers'] = (int(m.group(1)), int(m.group(2)), int(m.group(3) or 0))
            m = re.match(r'VERIFICATION:- (\S+)(.*)$', ln)
            if m:
                r['result'] = m.group(1)
                r['note'] = m.group(2).strip()
            m = re.match(r'Verification Time: ([0-9.]+)s', ln)
            if m:
                r['time'] = float(m.group(1))
            if 'CBMC failed' in ln or 'CBMC timed out' in ln or 'out of memory' in ln.lower():
                r['result'] = 'TOOL'
                r['note'] = ln.strip()
        i += 1
    return res


def playback(tmp, hname, fargs, timeout=600):
    """re-run one failing harness with concrete playback written in place, then execute the generated unit test
    natively against the real code.  returns dict or None"""
    short = hname.split('::')[-1]
    try:
        p = subprocess.run(['cargo', 'kani'] + KANI_FLAGS + ['-Z', 'concrete-playback', '--concrete-playback=inplace', '--harness', hname, '--exact'] + fargs,
                           cwd=tmp, stdout=subprocess.PIPE, stderr=subprocess.STDOUT, universal_newlines=True, timeout=timeout,
                           env=dict(os.environ, CARGO_NET_OFFLINE='true'))
    except subprocess.TimeoutExpired:
        return None
    m = re.search(r'- (kani_concrete_playback_%s_\d+)' % re.escape(short), p.stdout)
    if not m:
        return None
    test = m.group(1)
    src = ''
    k = -1
    for fn in sorted(os.listdir(os.path.join(tmp, 'src'))):
        if fn.startswith('verif_kani'):
            src = open(os.path.join(tmp, 'src', fn)).read()
            k = src.find('fn ' + test)
            if k >= 0:
                break
    vals = []
    if k >= 0:
        body = src[k:src.find('kani::concrete_playback_run', k)]
        for cm, by in re.findall(r'//\s*(.*)\n\s*vec!\[([^\]]*)\]', body):
            vals.append({'decoded': cm.strip(), 'bytes': [int(x) for x in by.split(',') if x.strip()]})
    if '--features' in fargs:
        # the crate's own unit tests need serde_json (not a dependency, not available offline) when the serde feature is
        # on; they are irrelevant for the replay, so their modules are switched off in the scratch copy (test code only)
        for fn in os.listdir(os.path.join(tmp, 'src')):
            if fn.endswith('.rs') and not fn.startswith('verif_kani'):
                pth = os.path.join(tmp, 'src', fn)
                t = open(pth).read()
                t2 = re.sub(r'#\[cfg\(test\)\]\s*\nmod tests', '#[cfg(any())]\nmod tests', t)
                if t2 != t:
                    open(pth, 'w').write(t2)
    try:
        q = subprocess.run(['cargo', 'kani', 'playback', '-Z', 'concrete-playback'] + fargs + ['--', test],
                           cwd=tmp, stdout=subprocess.PIPE, stderr=subprocess.STDOUT, universal_newlines=True, timeout=timeout,
                           env=dict(os.environ, CARGO_NET_OFFLINE='true', RUST_BACKTRACE='0'))
        pm = re.search(r"panicked at ([^\n]*)\n([^\n]*)", q.stdout)
        failed = 'test result: FAILED' in q.stdout
        ran = 'running 1 test' in q.stdout
        rr = {'executed_natively': ran, 'fails_on_real_code': failed, 'panic': (pm.group(1) + ' ' + pm.group(2)) if pm else None}
    except subprocess.TimeoutExpired:
        rr = {'executed_natively': False, 'fails_on_real_code': None, 'panic': None}
    return {'values_in_order_of_kani_any_calls': vals, 'native_replay': rr, 'test': test}


def run(step, repo, tier='quick', seed=0):
    t0 = time.time()
    res = {'status': 'tool', 'failures': [], 'tool_errors': [], 'wall_s': 0, 'harnesses': 0, 'harness_list': [],
           'obligations': 0, 'discharged': 0, 'trusted': [], 'bounded': [], 'samples': [], 'cmd': '', 'verification_time_s': 0.0}
    tmp = None
    try:
        try:
            tmp, metas = prepare(repo, step['unit'], step.get('features'))
        except Exception as e:   # generator problems are tool errors, never verdicts
            res['tool_errors'].append('harness generation failed: %s: %s' % (type(e).__name__, e))
            return res
        pid = step['set']
        real_pid = 'C18' if pid == 'C18q' else pid
        sel = [m for m in metas if pid in m['tags'] and (tier == 'thorough' or not m.get('thorough_only'))]
        if not sel:
            res['tool_errors'].append('no harness selected for %s in unit %s' % (pid, step['unit']))
            return res
        fargs = feature_args(step.get('features'))
        cmd = ['cargo', 'kani'] + KANI_FLAGS + ['-j', str(step.get('jobs', 16))] + fargs
        for m in sel:
            cmd += ['--harness', m.get('path', 'verif_kani::' + m['name'])]
        cmd += ['--exact']
        res['cmd'] = 'cargo kani %s -j 16 %s --exact --harness <%d harnesses of unit %s tagged %s>' % (' '.join(KANI_FLAGS), ' '.join(fargs), len(sel), step['unit'], pid)
        try:
            p = subprocess.run(cmd, cwd=tmp, stdout=subprocess.PIPE, stderr=subprocess.STDOUT, universal_newlines=True,
                               timeout=step.get('timeout', 2400), env=dict(os.environ, CARGO_NET_OFFLINE='true'))
        except subprocess.TimeoutExpired:
            res['tool_errors'].append('cargo kani timed out after %d s' % step.get('timeout', 2400))
            return res
        out = p.stdout
        if os.environ.get('VERIF_DEBUG'):
            open('/tmp/verif_kani_last_%s_%s.log' % (step['unit'], pid), 'w').write(out)
        parsed = parse_output(out)
        if not parsed and getattr(sys.modules.get(step['unit']), 'FALLBACK_PUBLIC', False):
            # the private-field harness modules no longer compile against this tree (representation changed):
            # fall back to the harnesses that use only the public API
            errs = [l for l in out.split('\n') if l.startswith('error')]
            res['tool_errors'].append('private-field harness modules do not compile against this tree (%s); only the public-API harnesses were run' % ' | '.join(errs[:3]))
            shutil.rmtree(tmp, ignore_errors=True)
            tmp, metas = prepare(repo, step['unit'], step.get('features'), public_only=True)
            sel = [m for m in metas if pid in m['tags'] and m.get('public') and (tier == 'thorough' or not m.get('thorough_only'))]
            cmd = ['cargo', 'kani'] + KANI_FLAGS + ['-j', str(step.get('jobs', 16))] + fargs
            for m in sel:
                cmd += ['--harness', m.get('path', 'verif_kani::' + m['name'])]
            cmd += ['--exact']
            try:
                p = subprocess.run(cmd, cwd=tmp, stdout=subprocess.PIPE, stderr=subprocess.STDOUT, universal_newlines=True,
                                   timeout=step.get('timeout', 2400), env=dict(os.environ, CARGO_NET_OFFLINE='true'))
            except subprocess.TimeoutExpired:
                res['tool_errors'].append('cargo kani (public fallback) timed out')
                return res
            out = p.stdout
            parsed = parse_output(out)
        if not parsed:
            errs = [l for l in out.split('\n') if l.startswith('error')]
            res['tool_errors'].append('kani produced no harness results (compile error?): ' + ' | '.join(errs[:5]) + ' ... ' + out[-1500:])
            return res
        res['harnesses'] = len(sel)
        for m in sel:
            full = m.get('path', 'verif_kani::' + m['name'])
            r = parsed.get(full)
            if r is None or r['result'] is None:
                res['tool_errors'].append('no result for harness ' + m['name'])
                continue
            res['verification_time_s'] += r['time'] or 0
            ent = {'name': m['name'], 'target': m.get('target'), 'time_s': r['time'], 'complete': m.get('complete', True), 'result': r['result'], 'paired': bool(m.get('paired')), 'covers': m.get('covers', []),
                   'checks': m.get('checks')}
            ent['failed_tags'] = sorted(set(t for d in r['failed'] for t in re.findall(r'\[(C\d+|B\d)\]', d[0])) | (set(['*']) if any(not re.findall(r'\[(C\d+|B\d)\]', d[0]) for d in r['failed']) else set()))
            res['harness_list'].append(ent)
            res['obligations'] += 1
            if not m.get('complete', True):
                res['bounded'].append('%s: %s' % (m['name'], m.get('bound', 'bounded')))
            unwind_fail = [f for f in r['failed'] if 'unwinding assertion' in f[0]]
            if r['result'] == 'TOOL' or unwind_fail:
                res['tool_errors'].append('harness %s: %s %s' % (m['name'], r['note'], unwind_fail[:1]))
                continue
            if r['result'] != 'SUCCESSFUL' and not r['failed'] and m.get('expect', 'pass') == 'pass':
                res['tool_errors'].append('harness %s ended with %s but no failed check was reported (solver killed / crashed / out of memory?)' % (m['name'], r['result']))
                continue
            ok = False
            if m.get('contract'):
                ok = r['result'] == 'SUCCESSFUL' and not r['failed']
            elif m.get('expect', 'pass') == 'pass':
                ok = r['result'] == 'SUCCESSFUL' and not r['failed'] and r['covers'] is not None and r['covers'][0] == r['covers'][1] and r['covers'][1] > 0
                if r['result'] == 'SUCCESSFUL' and not ok:
                    res['tool_errors'].append('harness %s is vacuous: cover properties %s' % (m['name'], r['covers']))
                    continue
            else:   # the call must panic for every input: the return point is unreachable
                ok = r['result'] == 'SUCCESSFUL' and 'panics as expected' in r['note'] and r['covers'] is not None and r['covers'][0] == 0
            if ok:
                if m.get('complete', True):
                    res['discharged'] += 1
                else:
                    res['obligations'] -= 1   # bounded stand-ins are reported separately, never counted as proved
                continue
            # failure: attribute by the [Cxx] tags of the failed checks; untagged failed checks (panics inside the real
            # code, overflow, ...) count for every property the harness serves
            descs = r['failed'] or [('%s %s' % (r['result'], r['note']), '', 0, '')]
            tags = set()
            for d in descs:
                t = set(re.findall(r'\[(C\d+)\]', d[0]))
                tags |= t if t else set(m['tags']) | (set(['C18']) if m.get('valid_input', True) else set())
            if m.get('expect') == 'panic' and not r['failed']:
                tags = set(m['tags'])
            # a failed bridge obligation ([B1]/[B2]/[B3]) invalidates an assumption of the property being checked
            if any(d for d in descs if re.search(r'\[B\d\]', d[0])) and pid in m['tags']:
                tags.add(pid)
            if pid != real_pid and pid in tags:
                tags.add(real_pid)
            f = {'name': '%s :: harness %s (%s) :: %s' % (step['unit'], m['name'], m.get('target', ''), '; '.join(d[0] for d in descs)[:400]),
                 'tags': sorted(tags), 'message': '; '.join(d[0] for d in descs),
                 'rendered': 'Kani harness %s: VERIFICATION %s %s\n' % (m['name'], r['result'], r['note']) + '\n'.join('Failed check: %s (%s:%d in %s)' % d for d in descs)}
            pbh = m['name'] if m.get('expect', 'pass') == 'pass' else m.get('playback_harness')
            if pid in tags and pbh and not step.get('no_playback') and sum(1 for x in res['failures'] if x.get('counterexample')) < 2:
                pb = playback(tmp, (m.get('path', 'verif_kani::' + m['name'])).rsplit('::', 1)[0] + '::' + pbh, fargs)
                if pb:
                    f['counterexample'] = {'harness': m['name'], 'inputs': pb['values_in_order_of_kani_any_calls'], 'input_schema': m.get('inputs')}
                    f['replay_result'] = pb['native_replay']
            res['failures'].append(f)
        for m in sel[:3]:
            res['samples'].append({'harness': m['name'], 'target': m.get('target'), 'obligation': m.get('checks')})
        mod = sys.modules.get(step['unit'])
        res['trusted'] = list(getattr(mod, 'TRUSTED', []))
        if res['tool_errors']:
            res['status'] = 'tool'
        elif res['failures']:
            res['status'] = 'fail'
        else:
            res['status'] = 'ok'
        return res
    finally:
        res['wall_s'] = round(time.time() - t0, 2)
        if tmp and not os.environ.get('VERIF_KEEP_TMP'):
            shutil.rmtree(tmp, ignore_errors=True)


if __name__ == '__main__':
    import json
    step = {'kind': 'kani', 'unit': sys.argv[1], 'set': sys.argv[2], 'features': sys.argv[3] if len(sys.argv) > 3 and sys.argv[3] != '-' else None}
    r = run(step, sys.argv[4] if len(sys.argv) > 4 else '/repo', tier=os.environ.get('VERIF_TIER', 'quick'))
    r['harness_list'] = r['harness_list'][:5]
    print(json.dumps(r, indent=1))
