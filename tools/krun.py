def run(step, repo, tier='quick', seed=0):
    return {'status': 'tool', 'failures': [], 'tool_errors': ['kani runner not built yet'], 'wall_s': 0}
