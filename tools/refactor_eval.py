#!/usr/bin/env python3
"""refactor_eval.py <refactor dir> <props,comma>   -- apply a behaviour-preserving patch to a scratch copy and run checks.
Any VIOLATION here is a false alarm of the machinery."""
import json, os, shutil, subprocess, sys, tempfile
sys.path.insert(0, os.path.dirname(os.path.abspath(__file__)))
from mutant_eval import copy_repo, sh, ROOT
d = os.path.abspath(sys.argv[1]); props = sys.argv[2].split(',')
tmp = tempfile.mkdtemp(prefix='verif_ref_')
res = {'refactor': d, 'summary': json.load(open(os.path.join(d, 'meta.json'))).get('summary'), 'checks': {}}
try:
    t = os.path.join(tmp, 'r'); copy_repo(t)
    rc, out = sh('patch -p1 --no-backup-if-mismatch < %s' % os.path.join(d, 'patch.diff'), t)
    res['patch_applies'] = rc == 0
    if rc == 0:
        for p in props:
            rc, out = sh('./check %s' % p, ROOT, env=dict(os.environ, VERIF_REPO=t), timeout=3600)
            lines = [l for l in out.split('\n') if l.startswith(('VIOLATION', 'OK ', 'UNDECIDED', 'failed obligation'))]
            res['checks'][p] = {'exit': rc, 'lines': [l[:300] for l in lines[:4]]}
    print(json.dumps(res))
finally:
    shutil.rmtree(tmp, ignore_errors=True)
