#!/usr/bin/env python3
"""Evaluate one seeded change:  mutant_eval.py <mutant dir> [--props C08,C15] [--skip-confirm]

1. copies /repo's working tree to a scratch directory, applies <dir>/patch.diff there,
2. confirms that the crate still builds and the existing suite passes with the change, that the demonstration
   fails with the change and passes without it,
3. runs ./check <prop> for the requested properties against the scratch tree (VERIF_REPO),
4. prints one JSON line with everything; removes the scratch directory.
"""
import json
import os
import shutil
import subprocess
import sys
import tempfile

ROOT = os.path.dirname(os.path.dirname(os.path.abspath(__file__)))


def sh(cmd, cwd, timeout=1800, env=None):
    p = subprocess.run(cmd, cwd=cwd, shell=True, stdout=subprocess.PIPE, stderr=subprocess.STDOUT, universal_newlines=True, timeout=timeout, env=env)
    return p.returncode, p.stdout


def copy_repo(dst):
    os.makedirs(dst)
    for f in os.listdir('/repo'):
        if f in ('target', '.git'):
            continue
        s = os.path.join('/repo', f)
        if os.path.isdir(s):
            shutil.copytree(s, os.path.join(dst, f))
        else:
            shutil.copy(s, os.path.join(dst, f))


def main():
    d = os.path.abspath(sys.argv[1])
    meta = json.load(open(os.path.join(d, 'meta.json')))
    props = [meta['property']]
    if '--props' in sys.argv:
        props = sys.argv[sys.argv.index('--props') + 1].split(',')
    feats = meta.get('features', '') or ''
    tmp = tempfile.mkdtemp(prefix='verif_mut_')
    res = {'mutant': d, 'property': meta['property'], 'summary': meta.get('summary'), 'confirm': {}, 'checks': {}}
    try:
        clean = os.path.join(tmp, 'clean')
        mut = os.path.join(tmp, 'mut')
        copy_repo(clean)
        copy_repo(mut)
        rc, out = sh('patch -p1 --no-backup-if-mismatch < %s' % os.path.join(d, 'patch.diff'), mut)
        res['confirm']['patch_applies'] = rc == 0
        if rc != 0:
            res['confirm']['patch_output'] = out[-600:]
            print(json.dumps(res))
            return
        if '--skip-confirm' not in sys.argv:
            env = dict(os.environ, CARGO_TARGET_DIR=os.path.join(tmp, 'target_mut'), RUST_BACKTRACE='0')
            rc, out = sh('cargo test --workspace --offline 2>&1 | tail -30', mut, env=env)
            res['confirm']['suite_passes_with_change'] = ('test result: FAILED' not in out) and ('error' not in out.lower().split('test result')[0][-2000:] or 'test result: ok' in out) and out.count('test result: ok') >= 3
            for name, tree in (('demo_fails_with_change', mut), ('demo_passes_without_change', clean)):
                os.makedirs(os.path.join(tree, 'tests'), exist_ok=True)
                shutil.copy(os.path.join(d, 'demo.rs'), os.path.join(tree, 'tests', 'demo.rs'))
                env = dict(os.environ, CARGO_TARGET_DIR=os.path.join(tmp, 'target_mut' if tree == mut else 'target_clean'), RUST_BACKTRACE='0')
                if '--test demo' in feats:
                    feats = feats.replace('--test demo', '')
                rc, out = sh('cargo test --offline %s --test demo 2>&1 | tail -40' % feats, tree, env=env)
                ok = 'test result: ok' in out
                failed = 'test result: FAILED' in out
                res['confirm'][name] = failed if name.startswith('demo_fails') else ok
                if (name.startswith('demo_fails') and not failed) or (name.startswith('demo_passes') and not ok):
                    res['confirm'][name + '_output'] = out[-500:]
                os.remove(os.path.join(tree, 'tests', 'demo.rs'))
        for p in ([] if '--no-check' in sys.argv else props):
            rc, out = sh('./check %s' % p, ROOT, env=dict(os.environ, VERIF_REPO=mut), timeout=3600)
            lines = [l for l in out.split('\n') if l.startswith(('VIOLATION', 'OK ', 'UNDECIDED property', 'KNOWN-FINDING', 'failed obligation'))]
            res['checks'][p] = {'exit': rc, 'lines': lines[:6]}
        print(json.dumps(res))
    finally:
        shutil.rmtree(tmp, ignore_errors=True)


if __name__ == '__main__':
    main()
