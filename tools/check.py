#!/usr/bin/env python3
"""./check <ID> [--tier quick|thorough]      decide property <ID> on the current /repo working tree
   ./check replay <file>                     show / re-run a replay file

exit 0  every obligation of the property's slice discharged (known findings are printed as KNOWN-FINDING lines)
exit 1  + line `VIOLATION property=<id> replay=<path>` : an obligation tagged with the property is refuted / not provable
exit 2  undecided: tool error, lost anchor, unsupported construct, only always-on safety clauses failed, ...
"""
import concurrent.futures
import json
import os
import re
import sys
import time

HERE = os.path.dirname(os.path.abspath(__file__))
ROOT = os.path.dirname(HERE)
sys.path.insert(0, HERE)
sys.path.insert(0, os.path.join(ROOT, 'contracts'))
import vrun
import krun
import props

REPO = os.environ.get('VERIF_REPO', '/repo')
OUT = os.path.join(ROOT, 'out')


def load_known():
    known, fixed = [], []
    p = os.path.join(ROOT, 'known_findings.txt')
    if os.path.exists(p):
        for ln in open(p):
            ln = ln.strip()
            if not ln or ln.startswith('#'):
                continue
            m = re.match(r'(known|fixed):\s*property=(\S+)\s+(.*)$', ln)
            if not m:
                continue
            ent = {'kind': m.group(1), 'property': m.group(2), 'rest': m.group(3)}
            mk = re.search(r'key=(\S+)', m.group(3))
            ent['key'] = mk.group(1) if mk else None
            (known if m.group(1) == 'known' else fixed).append(ent)
    return known, fixed


def attribution(f):
    tags = set()
    for c in f.get('clauses', []):
        tags.update(c['tags'])
    for p in f.get('preludes', []):
        tags.update(p['tags'])
    tags.discard('*')
    tags.discard('TOP')
    return tags


def obligation_name(step, f):
    if f.get('clauses'):
        c = f['clauses'][0]
        return '%s :: %s :: %s[%s] %s' % (step['unit'], c['owner'], c['kind'], ','.join(c['tags']), ' '.join(c['expr'].split())[:160])
    if f.get('preludes'):
        return '%s :: lemma/client in "%s" (line %s): %s' % (step['unit'], f['preludes'][0]['title'], f.get('line'), f['message'])
    return '%s :: %s at generated line %s' % (step['unit'], f['message'], f.get('line'))


def harness_ok_for(h, pid):
    """a paired harness confirms property pid when it ran to completion and none of its failed checks concerns pid
    (checks carry [Cxx] tags; an untagged failed check -- a panic in the real code -- concerns every property)"""
    if h.get('result') == 'SUCCESSFUL':
        return True
    ft = h.get('failed_tags') or ['*']
    return h.get('result') == 'FAILED' and pid not in ft and '*' not in ft and not any(t.startswith('B') for t in ft)


def lemma_level(v):
    """failures inside theorem / lemma / link-client text (prelude blocks) or in contracts without a Kani counterpart
    (constants, predicates proved only by Verus) are never downgraded"""
    f = v['failure']
    if f.get('preludes') and not f.get('clauses'):
        return True
    return False


def run_step(step, tier, seed):
    if step['kind'] == 'verus':
        if tier != 'thorough':
            r = vrun.run(step['unit'], step['slice'], REPO, seed=0)
            r['kind'] = 'verus'
            return r
        # thorough: three solver seeds; an obligation that is discharged under one seed and fails under another is a
        # brittle proof (tool problem, exit 2), never an alarm
        runs = [vrun.run(step['unit'], step['slice'], REPO, seed=(seed or 1) + 7919 * i) for i in range(3)]
        r = runs[0]
        r['kind'] = 'verus'
        sigs = [sorted(f.get('message', '') + str(f.get('line')) for f in x['failures']) for x in runs]
        r['seeds'] = [(seed or 1) + 7919 * i for i in range(3)]
        r['smt_ms'] = sum(x.get('smt_ms', 0) for x in runs)
        if any(x['status'] == 'tool' for x in runs):
            bad = [x for x in runs if x['status'] == 'tool'][0]
            r['status'] = 'tool'
            r['tool_errors'] = bad['tool_errors']
        elif len(set(map(tuple, sigs))) > 1:
            r['status'] = 'tool'
            r['tool_errors'] = r['tool_errors'] + ['seed-dependent verification result (brittle proof): failures per seed = %s' % [len(x) for x in sigs]]
            r['failures'] = []
        return r
    r = krun.run(step, REPO, tier=tier, seed=seed)
    r['kind'] = 'kani'
    return r


def main():
    args = sys.argv[1:]
    if not args:
        print(__doc__)
        return 2
    if args[0] == 'replay':
        print(open(args[1]).read())
        return 0
    pid = args[0]
    tier = os.environ.get('VERIF_TIER', 'quick')
    if '--tier' in args:
        tier = args[args.index('--tier') + 1]
    seed = int(os.environ.get('VERIF_SEED', '0') or 0)
    if pid not in props.PROPS:
        print('unknown property ' + pid)
        return 2
    P = props.PROPS[pid]
    steps = [s for s in P['steps'] if tier == 'thorough' or not s.get('thorough_only')]
    t0 = time.time()
    os.makedirs(os.path.join(OUT, 'replay'), exist_ok=True)
    results = []
    # Verus steps are cheap and run in parallel; Kani steps use all cores themselves and run one after another
    vsteps = [s for s in steps if s['kind'] == 'verus']
    ksteps = [s for s in steps if s['kind'] != 'verus']
    with concurrent.futures.ThreadPoolExecutor(max_workers=8) as ex:
        futs = [(s, ex.submit(run_step, s, tier, seed)) for s in vsteps]
        for s in ksteps:
            results.append((s, run_step(s, tier, seed)))
        for s, f in futs:
            results.append((s, f.result()))

    known, fixed = load_known()
    violations, known_hits, undecided, tool, other = [], [], [], [], []
    obligations = discharged = 0
    smt_ms = 0
    for s, r in results:
        obligations += r.get('obligations', r.get('verified', 0) + len(r['failures']))
        discharged += r.get('discharged', r.get('verified', 0))
        smt_ms += r.get('smt_ms', 0)
        for t in r['tool_errors']:
            tool.append('%s/%s: %s' % (s['unit'], s.get('slice', s.get('set', '')), t))
        for f in r['failures']:
            name = f.get('name') or obligation_name(s, f)
            tags = f.get('tags') if r['kind'] == 'kani' else attribution(f)
            ent = {'step': s, 'failure': f, 'name': name, 'tags': sorted(tags)}
            if pid in tags:
                kf = [k for k in known if k['property'] == pid and k['key'] and k['key'] in name]
                if kf:
                    known_hits.append((kf[0], ent))
                else:
                    violations.append(ent)
            elif r['kind'] == 'kani' and tags and pid not in tags:
                # an independently selected check of another property failed in a shared harness: not this property's business
                other.append(ent)
            elif not tags and pid in ('C18',) and r['kind'] == 'verus' and not f.get('clauses'):
                # a panic site / arithmetic / index obligation of the real code itself
                violations.append(ent)
            else:
                undecided.append(ent)

    # Confirmation rule for Verus-decided step contracts: when the paired Kani harnesses of this property (same public
    # contracts, real code, no modularity) all verify, an unprovable Verus obligation is a proof artefact (helper without
    # contract, brittle proof) or concerns a helper whose public behaviour is unchanged: undecided, not a violation.
    paired = []
    for s_, r_ in results:
        if r_['kind'] == 'kani':
            paired += [h for h in r_.get('harness_list', []) if h.get('paired')]
    kani_failed = any(v['step']['kind'] == 'kani' for v in violations)
    kani_tool = any(r_['tool_errors'] for s_, r_ in results if r_['kind'] == 'kani')
    if violations and paired and not kani_failed and not kani_tool:
        keep = []
        for v in violations:
            owners = [c['owner'] for c in v['failure'].get('clauses', [])]
            cover = [h for h in paired if any(cv in o for cv in h.get('covers', []) for o in owners)]
            if v['step']['kind'] == 'verus' and owners and cover and all(harness_ok_for(h, pid) for h in cover) and not lemma_level(v):
                v['name'] += '  [not confirmed: the %d paired Kani harnesses covering this function verify on the real code]' % len(cover)
                undecided.append(v)
            else:
                keep.append(v)
        violations = keep

    wall = round(time.time() - t0, 2)
    status = 0
    replay_path = None
    if violations:
        status = 1
        replay_path = os.path.join(OUT, 'replay', '%s-%d.json' % (pid, int(time.time())))
        rep = {'property': pid, 'tier': tier, 'violations': []}
        found_input = False
        for v in violations:
            f = v['failure']
            e = {'obligation': v['name'], 'tags': v['tags'], 'back_end': v['step']['kind'], 'unit': v['step']['unit'],
                 'verifier_output': f.get('rendered', '')[:4000]}
            if f.get('counterexample'):
                e['counterexample'] = f['counterexample']
                e['replayed_on_real_code'] = f.get('replay_result')
                found_input = True
            rep['violations'].append(e)
        json.dump(rep, open(replay_path, 'w'), indent=1)
    elif tool or undecided:
        status = 2

    write_evidence(pid, P, tier, seed, results, obligations, discharged, smt_ms, wall, violations, known_hits, undecided, tool)

    for k, ent in known_hits:
        print('KNOWN-FINDING: property=%s %s' % (pid, k['rest']))
    if status == 1:
        for v in violations:
            print('failed obligation: ' + v['name'])
            ce = v['failure'].get('counterexample')
            if ce:
                print('  counterexample: ' + json.dumps(ce))
        found = any(v['failure'].get('counterexample') for v in violations)
        print('VIOLATION property=%s replay=%s%s' % (pid, replay_path, '' if found else ' no-failing-input-found'))
    elif status == 2:
        for t in tool[:10]:
            print('UNDECIDED (tool): ' + t[:1500])
        for u in undecided[:10]:
            print('UNDECIDED (an always-on safety clause failed, not an obligation of %s): %s' % (pid, u['name']))
        print('UNDECIDED property=%s (exit 2 is not an alarm)' % pid)
    else:
        print('OK property=%s tier=%s obligations=%d discharged=%d wall=%.1fs' % (pid, tier, obligations, discharged, wall))
    return status


def write_evidence(pid, P, tier, seed, results, obligations, discharged, smt_ms, wall, violations, known_hits, undecided, tool):
    # runs against a scratch tree (seeded-change evaluation) must never overwrite the evidence of /repo itself
    evdir = os.path.join(ROOT, 'evidence') if REPO == '/repo' else os.path.join(OUT, 'evidence_scratch')
    os.makedirs(evdir, exist_ok=True)
    fns, samples, trusted, dropped, bounded, units = [], [], [], [], [], []
    for s, r in results:
        if r['kind'] == 'verus':
            m = r.get('manifest') or {}
            per_fn = {}
            for c in m.get('clauses', []):
                per_fn.setdefault(c['owner'], []).append('%s[%s]: %s' % (c['kind'], ','.join(c['tags']), ' '.join(c['expr'].split())))
            sha = {i['key']: i['sha256'] for i in m.get('items', [])}
            for owner, cl in per_fn.items():
                fns.append({'function': owner, 'unit': s['unit'], 'back_end': 'verus/z3', 'clauses': cl, 'source_tokens_sha256': sha.get(owner)})
            for owner, cl in list(per_fn.items())[:3]:
                samples.append({'unit': s['unit'], 'function': owner, 'obligation': cl[0]})
            for t in m.get('trusted_scan', []):
                trusted.append('%s (unit %s, generated line %d): %s' % (t['what'], s['unit'], t['line'], t['text']))
            for p in m.get('preludes', []):
                if P['id'] in p['tags']:
                    samples.append({'unit': s['unit'], 'theorems': p['title']})
            units.append({'unit': s['unit'], 'slice': s['slice'], 'back_end': 'verus 0.2026.09.13 / z3', 'verified': r['verified'], 'status': r['status'],
                          'smt_ms': r.get('smt_ms'), 'wall_s': r['wall_s'], 'cmd': r['cmd'],
                          'extracted_items': len(m.get('items', [])), 'fidelity': m.get('fidelity'),
                          'dropped_items': len(m.get('dropped', [])), 'rewrites': len(m.get('rewrites', [])),
                          'assumed_or_trusted_in_generated_file': len(m.get('trusted_scan', []))})
            for d in m.get('dropped', [])[:400]:
                dropped.append('%s: %s' % (d['key'], d['why']))
        else:
            units.append({'unit': s['unit'], 'set': s.get('set'), 'back_end': 'kani 0.68 / cbmc 6.11 + cadical', 'harnesses': r.get('harnesses'),
                          'status': r['status'], 'wall_s': r['wall_s'], 'cmd': r.get('cmd'), 'features': s.get('features'),
                          'verification_time_s': r.get('verification_time_s')})
            for h in r.get('harness_list', []):
                fns.append({'function': h.get('target', h['name']), 'unit': s['unit'], 'back_end': 'kani/cbmc', 'harness': h['name'],
                            'checks': h.get('checks'), 'time_s': h.get('time_s'), 'complete': h.get('complete', True)})
            samples.extend(r.get('samples', [])[:4])
            trusted.extend(r.get('trusted', []))
            bounded.extend(r.get('bounded', []))
    ev = {
        'property_id': pid,
        'tier': tier,
        'seed': seed,
        'level': 'proof',
        'coverage': {
            'obligations': obligations,
            'discharged': discharged,
            'checker_cmd': ' ; '.join(sorted(set(u.get('cmd') or '' for u in units))),
            'trusted_base': sorted(set(trusted + P.get('trusted', []))),
            'samples': samples[:12] or [{'note': 'no obligations'}],
            'units': units,
            'functions_under_contract': fns,
            'solver_ms_smt': smt_ms,
            'bounded_parts_not_counted_as_proved': bounded,
            'not_extracted': sorted(set(dropped))[:200],
            'known_findings_matched': [k['rest'] for k, _ in known_hits],
            'failed_obligations': [v['name'] for v in violations],
            'undecided': [u['name'] for u in undecided] + tool[:5],
            'exhaustive': False,
        },
        'assumptions': P.get('assumptions', []),
        'wall_s': wall,
        'violations': len(violations),
    }
    json.dump(ev, open(os.path.join(evdir, pid + '.json'), 'w'), indent=1)


if __name__ == '__main__':
    sys.exit(main())
