#!/usr/bin/env python3
"""Collect confirmed seeded changes from /tmp/mut/<ID>/_mutant_<x> + the evaluation results into /verif/seeded/<ID>-<x>/."""
import glob, json, os, shutil, sys
ROOT = os.path.dirname(os.path.dirname(os.path.abspath(__file__)))
res = {}
for f in sorted(glob.glob('/tmp/mut/results*.jsonl')) + sorted(glob.glob('/tmp/mut2/results*.jsonl')):
    if 'ref' in f or 'cross' in f:
        continue
    for l in open(f):
        try:
            r = json.loads(l)
        except ValueError:
            continue
        key = r['mutant']
        ent = res.setdefault(key, {'confirm': {}, 'checks': {}})
        if r['confirm'].get('suite_passes_with_change') is not None:
            ent['confirm'] = r['confirm']
        ent['checks'].update(r['checks'])      # later runs (after strengthening) override earlier ones
        ent.setdefault('history', []).append({k: v['exit'] for k, v in r['checks'].items()})
rows = []
for key, ent in sorted(res.items()):
    d = key
    meta = json.load(open(os.path.join(d, 'meta.json')))
    pid = meta['property']
    x = d.rstrip('/').split('_')[-1] + ('2' if '/mut2/' in d else '')
    c = ent['confirm']
    confirmed = c.get('patch_applies') and c.get('suite_passes_with_change') and c.get('demo_fails_with_change') and c.get('demo_passes_without_change')
    if not confirmed:
        print('NOT CONFIRMED (not kept):', d, {k: v for k, v in c.items() if not k.endswith('_output')})
        continue
    out = os.path.join(ROOT, 'seeded', '%s-%s' % (pid, x))
    os.makedirs(out, exist_ok=True)
    shutil.copy(os.path.join(d, 'patch.diff'), out)
    shutil.copy(os.path.join(d, 'demo.rs'), out)
    first = ent['history'][0].get(pid)
    last = ent['checks'].get(pid, {})
    m = {'property': pid, 'summary': meta.get('summary'), 'needs': meta.get('needs'), 'features': meta.get('features', ''),
         'origin': 'written by an independent sub-agent that saw only the property text and a scratch worktree',
         'confirmed_by': ['patch applies to a scratch copy of /repo HEAD', 'cargo test --workspace --offline passes with the change (64 unit + 2 integration + 8 doc tests)',
                          'tests/demo.rs fails with the change', 'tests/demo.rs passes without the change'],
         'ran': 'python3 tools/mutant_eval.py <dir>  (scratch copy of /repo + patch; ./check %s with VERIF_REPO=<scratch>)' % pid,
         'check_result_first_run': {0: 'missed (exit 0)', 1: 'VIOLATION', 2: 'undecided (exit 2)'}.get(first, str(first)),
         'check_result_now': {0: 'missed (exit 0)', 1: 'VIOLATION', 2: 'undecided (exit 2)'}.get(last.get('exit'), str(last.get('exit'))),
         'failed_obligations': [l for l in last.get('lines', []) if l.startswith('failed obligation')][:3],
         'violation_line': [l for l in last.get('lines', []) if l.startswith('VIOLATION')][:1]}
    json.dump(m, open(os.path.join(out, 'meta.json'), 'w'), indent=1)
    rows.append((pid + '-' + x, m['check_result_first_run'], m['check_result_now'], (m['failed_obligations'] or [''])[0][19:140], (meta.get('summary') or '')[:110]))
print('| seeded change | first run | now | failing obligation (first) | change |\n|---|---|---|---|---|')
for r in rows:
    print('| %s | %s | %s | `%s` | %s |' % tuple(x.replace('|', '/') for x in r))

# ---- behaviour-preserving refactorings and property-neutral behaviour changes (false-alarm tests)
rows2 = []
latest = {}
for f in sorted(glob.glob('/tmp/mut/results_ref*.jsonl')) + sorted(glob.glob('/tmp/mut3/results*.jsonl')):
    for l in open(f):
        try:
            r = json.loads(l)
        except ValueError:
            continue
        latest[r['refactor']] = r
for d, r in sorted(latest.items()):
    kind = 'neutral' if '/mut3/' in d else 'refactor'
    name = '%s-%s-%s' % (kind, d.split('/')[-2], d.rstrip('/').split('_')[-1])
    out = os.path.join(ROOT, 'benign', name)
    os.makedirs(out, exist_ok=True)
    shutil.copy(os.path.join(d, 'patch.diff'), out)
    if os.path.exists(os.path.join(d, 'demo.rs')):
        shutil.copy(os.path.join(d, 'demo.rs'), out)
    meta = json.load(open(os.path.join(d, 'meta.json')))
    meta['kind'] = 'behaviour-preserving refactoring' if kind == 'refactor' else 'behaviour change that violates none of the 19 properties'
    meta['checks_run'] = {k: {0: 'exit 0', 1: 'VIOLATION (false alarm)', 2: 'exit 2 (undecided)'}.get(v['exit'], str(v['exit'])) for k, v in r['checks'].items()}
    json.dump(meta, open(os.path.join(out, 'meta.json'), 'w'), indent=1)
    rows2.append((name, ', '.join('%s:%s' % (k, v['exit']) for k, v in sorted(r['checks'].items())), (meta.get('summary') or '')[:120]))
print('\n| benign change | checks run: exit code | change |\n|---|---|---|')
for r in rows2:
    print('| %s | %s | %s |' % tuple(x.replace('|', '/') for x in r))
