#!/usr/bin/env python3
"""Regenerates /verif/MANIFEST.json from contracts/props.py + the descriptions below."""
import json
import os
import sys
HERE = os.path.dirname(os.path.abspath(__file__))
ROOT = os.path.dirname(HERE)
sys.path.insert(0, os.path.join(ROOT, 'contracts'))
import props

DESC = props.DESC
checks = []
for pid in sorted(props.PROPS):
    if pid not in DESC:
        continue
    d = DESC[pid]
    P = props.PROPS[pid]
    checks.append({
        'property_id': pid,
        'quick_cmd': './check %s --tier quick' % pid,
        'thorough_cmd': './check %s --tier thorough' % pid,
        'evidence_file': 'evidence/%s.json' % pid,
        'replay_cmd_template': './check replay {path}',
        'engine': d['engine'],
        'level_claimed': {'category': 'proof', 'text': d['text'], 'design_ref': d['ref']},
        'level_note': d['note'],
        'technique': d['technique'],
    })
na = [{'property_id': k, 'reason': v} for k, v in sorted(props.NOT_APPLICABLE.items())]
m = {
    'version': 1,
    'setup_cmd': './setup.sh',
    'hooks': {
        'guard': 'helgoboss_midi_verif',
        'enable': 'not used: contracts are woven into a scratch copy of the working tree on every run (Verus: single generated file; Kani: crate copy, cfg(kani) is set by Kani itself); /repo carries no hook',
        'baseline_off_cmd': 'cd /repo && cargo test --workspace --no-fail-fast --offline',
        'source_commits': [],
        'add_only': True,
    },
    'engines': [
        {'name': 'verus', 'path': 'tools/vrun.py', 'serves_properties': sorted(p for p in props.PROPS if any(s['kind'] == 'verus' for s in props.PROPS[p]['steps'])),
         'kind_free_text': 'Verus 0.2026.09.13 on real functions extracted mechanically (tools/extract.py) with contracts from contracts/*.vc woven in; per-property contract slices'},
        {'name': 'kani', 'path': 'tools/krun.py', 'serves_properties': sorted(p for p in props.PROPS if any(s['kind'] == 'kani' for s in props.PROPS[p]['steps'])),
         'kind_free_text': 'Kani 0.68 / CBMC 6.11 on a copy of the real crate with contract attributes and harness module woven in (contracts/kani/*)'},
    ],
    'checks': checks,
    'not_applicable': na,
    'notes': 'Contract-based deductive verification; see DESIGN.md. exit 2 = undecided (tool error / only always-on safety clauses failed), never an alarm.',
}
json.dump(m, open(os.path.join(ROOT, 'MANIFEST.json'), 'w'), indent=1)
print('wrote MANIFEST.json with %d checks, %d not_applicable' % (len(checks), len(na)))
