"""Run one Verus unit/slice on the current /repo tree and classify the outcome.

result = {
  'status': 'ok' | 'fail' | 'tool',      ok = every obligation discharged and the vacuity canary failed as it must
  'verified': n, 'errors': n,
  'failures': [ {message, kind, owner, clause, tags, line, rendered} ],   semantic failures (canary excluded)
  'tool_errors': [text],                  compile errors, unsupported constructs, rlimit, lost anchors ...
  'manifest': extraction manifest, 'smt_ms': .., 'wall_s': ..
}
"""
import json
import os
import shutil
import subprocess
import sys
import tempfile
import time

HERE = os.path.dirname(os.path.abspath(__file__))
sys.path.insert(0, HERE)
import extract
import rustlex

SEMANTIC = ('postcondition not satisfied', 'precondition not satisfied', 'assertion failed', 'invariant not satisfied',
            'possible arithmetic underflow/overflow', 'possible division by zero', 'index out of bounds',
            'possible bit shift underflow/overflow', 'recommendation not met', 'decreases not satisfied',
            'could not prove termination', 'unreachable', 'failed to prove')
TOOLISH = ('rlimit', 'resource limit', 'timed out', 'timeout')


def classify(diag, manifest, genfile):
    msg = diag.get('message', '')
    low = msg.lower()
    spans = diag.get('spans', [])
    base = os.path.basename(genfile)
    hit_clauses, hit_preludes, canary = [], [], False
    first_line = None
    for sp in spans:
        if os.path.basename(sp.get('file_name', '')) != base:
            continue
        a, b = sp['line_start'], sp['line_end']
        if first_line is None or sp.get('is_primary'):
            first_line = a
        if manifest.get('canary_line') and a <= manifest['canary_line'] <= b:
            canary = True
        for c in manifest['clauses']:
            if not (b < c['line_start'] or a > c['line_end']):
                # only clause-sized spans count as "this clause failed" (a function-body span covers many lines)
                if b - a <= (c['line_end'] - c['line_start']) + 1:
                    hit_clauses.append(c)
        for p in manifest['preludes']:
            if p.get('line_start') and not (b < p['line_start'] or a > p['line_end']):
                hit_preludes.append(p)
    kind = 'other'
    if any(t in low for t in TOOLISH):
        kind = 'tool'
    elif any(low.startswith(s) or s in low for s in SEMANTIC):
        kind = 'semantic'
    return {'message': msg, 'kind': kind, 'canary': canary, 'clauses': hit_clauses, 'preludes': hit_preludes,
            'line': first_line, 'rendered': diag.get('rendered', '')}


def run(unit, sl, repo, seed=0, keep=None, rlimit=None, extra_files=None):
    t0 = time.time()
    tmp = tempfile.mkdtemp(prefix='verif_verus_')
    res = {'unit': unit, 'slice': sl, 'status': 'tool', 'verified': 0, 'errors': 0, 'failures': [], 'tool_errors': [],
           'manifest': None, 'smt_ms': 0, 'wall_s': 0.0, 'cmd': ''}
    try:
        gen = os.path.join(tmp, '%s_%s.rs' % (unit, sl))
        try:
            manifest = extract.build(unit, sl, repo, gen)
        except (extract.Unsupported, extract.LostAnchor, rustlex.LexError) as e:
            res['tool_errors'].append('%s: %s' % (type(e).__name__, e))
            return res
        except (OSError, IndexError, KeyError, AttributeError, ValueError) as e:
            res['tool_errors'].append('extractor failure %s: %s' % (type(e).__name__, e))
            return res
        res['manifest'] = manifest
        cmd = ['verus', gen, '--multiple-errors', '8', '--output-json', '--time', '--error-format=json']
        if seed:
            cmd += ['--smt-option', 'smt.random_seed=%d' % (seed % 1000000)]
        if rlimit:
            cmd += ['--rlimit', str(rlimit)]
        res['cmd'] = 'verus <extract(%s,%s)>.rs --multiple-errors 8 --output-json --time' % (unit, sl) + (' --smt-option smt.random_seed=%d' % (seed % 1000000) if seed else '')
        try:
            p = subprocess.run(cmd, cwd=tmp, stdout=subprocess.PIPE, stderr=subprocess.PIPE, timeout=900, universal_newlines=True)
        except subprocess.TimeoutExpired:
            res['tool_errors'].append('verus timed out after 900 s')
            return res
        out = {}
        try:
            out = json.loads(p.stdout)
        except ValueError:
            res['tool_errors'].append('verus produced no JSON result: ' + p.stdout[-500:] + p.stderr[-1500:])
            return res
        vr = out.get('verification-results', {})
        res['verified'] = vr.get('verified', 0)
        res['errors'] = vr.get('errors', 0)
        tm = out.get('times-ms', {})
        res['smt_ms'] = tm.get('smt', {}).get('total', 0) if isinstance(tm.get('smt'), dict) else 0
        res['verus_total_ms'] = tm.get('total', 0)
        canary_seen = False
        for ln in p.stderr.split('\n'):
            ln = ln.strip()
            if not ln.startswith('{'):
                continue
            try:
                d = json.loads(ln)
            except ValueError:
                continue
            if d.get('level') != 'error':
                continue
            if d.get('message', '').startswith('aborting due to'):
                continue
            c = classify(d, manifest, gen)
            if c['canary']:
                canary_seen = True
                continue
            if c['kind'] == 'semantic':
                res['failures'].append(c)
            else:
                res['tool_errors'].append(c['message'] + ' @line %s: %s' % (c['line'], c['rendered'][:600]))
        if vr.get('encountered-vir-error'):
            res['tool_errors'].append('verus reported a VIR (unsupported construct / mode) error')
        if keep:
            shutil.copy(gen, keep)
        if res['tool_errors']:
            res['status'] = 'tool'
        elif res['failures']:
            res['status'] = 'fail'
        elif not canary_seen:
            res['status'] = 'tool'
            res['tool_errors'].append('vacuity canary `ensures false` was NOT rejected: the unit is inconsistent or nothing was checked')
        elif res['verified'] == 0:
            res['status'] = 'tool'
            res['tool_errors'].append('zero obligations verified')
        else:
            res['status'] = 'ok'
        return res
    finally:
        res['wall_s'] = round(time.time() - t0, 2)
        shutil.rmtree(tmp, ignore_errors=True)


if __name__ == '__main__':
    r = run(sys.argv[1], sys.argv[2], sys.argv[3] if len(sys.argv) > 3 else '/repo', keep=os.environ.get('KEEP'))
    m = r.pop('manifest')
    for f in r['failures']:
        f['clauses'] = [(c['owner'], c['kind'], c['tags'], c['expr'][:80]) for c in f['clauses']]
        f['preludes'] = [p['title'] for p in f['preludes']]
        f['rendered'] = f['rendered'][:400]
    print(json.dumps(r, indent=1))
